#!/bin/bash
# usage: seedtest.sh <patch> <prop>...   -- applies the patch to a scratch copy of /repo (never to /repo) and runs the properties' quick checks on it
set -u
pf=$1; shift
d=$(mktemp -d /tmp/kcpseed.XXXXXX)
rsync -a --exclude .git /repo/ $d/
(cd $d && patch -p1 -s < $pf) || { echo "PATCH DID NOT APPLY"; rm -rf $d; exit 3; }
for p in "$@"; do
  /verif/bin/kcpverif check -prop $p -repo $d -evidence=false 2>&1 | grep -E "^(VIOLATION|ENGINE|property=|KNOWN)" | cut -c1-420 | head -8
done
rm -rf $d
