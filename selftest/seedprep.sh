#!/bin/bash
# usage: seedprep.sh <round-prefix e.g. seed4> <prop>  -- scratch worktree of /repo HEAD without the contracts file, plus the property text and the earlier changes
set -e
r=$1; p=$2; w=/tmp/$r-$p
git -C /repo worktree add -q --detach $w HEAD
rm -f $w/verif_contracts.go
python3 - "$p" "$r" <<'PY'
import json,sys,glob,os
p,r=sys.argv[1:3]
for l in open('/verif/properties.jsonl'):
    o=json.loads(l)
    if o['id']==p: open(f'/tmp/{r}-{p}.prop.txt','w').write(json.dumps(o,indent=1))
prev=[]
for d in sorted(glob.glob(f'/verif/seeded/{p}*')):
    m=json.load(open(d+'/meta.json'))
    if m.get('property')==p: prev.append('- '+m['change'])
open(f'/tmp/{r}-{p}.prev.txt','w').write('\n'.join(prev)+'\n')
PY
echo $w
