#!/bin/bash
# usage: mutc.sh <prop> <file> <old> <new>   (applies to a scratch copy, runs the property check on it, cleans up)
set -u
prop=$1; file=$2; old=$3; new=$4
d=$(mktemp -d /tmp/kcpmut.XXXXXX)
rsync -a --exclude .git /repo/ $d/
python3 - "$d/$file" "$old" "$new" <<'PY'
import sys
p,old,new=sys.argv[1:4]
s=open(p).read()
if s.count(old)==0:
    print("MUTATION DID NOT APPLY"); sys.exit(3)
open(p,'w').write(s.replace(old,new,1))
PY
rc=$?
if [ $rc -ne 0 ]; then rm -rf $d; exit 3; fi
(cd $d && GOFLAGS=-mod=mod GOPROXY=off go build ./... 2>&1 | head -5)
/verif/bin/kcpverif check -prop $prop -repo $d -evidence=false 2>&1 | grep -E "^(VIOLATION|ENGINE|property=|KNOWN)" | cut -c1-400 | head -6
rm -rf $d
