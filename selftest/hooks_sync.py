#!/usr/bin/env python3
# rewrites MANIFEST.hooks.source_commits from the git log of the guarded file (development helper, not a check)
import json, subprocess
m = json.load(open('/verif/MANIFEST.json'))
out = subprocess.check_output(['git', '-C', '/repo', 'log', '--format=%H', '--reverse', '--', 'verif_contracts.go'], text=True).split()
m['hooks']['source_commits'] = out
json.dump(m, open('/verif/MANIFEST.json', 'w'), indent=1)
print(len(out), 'commits')
