#!/bin/bash
# usage: mut.sh <file> <python-regex-old> <new> -- unit keys...   (applies to a scratch copy, runs units, cleans up)
set -u
file=$1; old=$2; new=$3; shift 4
d=$(mktemp -d /tmp/kcpmut.XXXXXX)
rsync -a --exclude .git /repo/ $d/
python3 - "$d/$file" "$old" "$new" <<'PY'
import sys,re
p,old,new=sys.argv[1:4]
s=open(p).read()
n=s.count(old)
if n==0:
    print("MUTATION DID NOT APPLY"); sys.exit(3)
s=s.replace(old,new,1)
open(p,'w').write(s)
PY
rc=$?
if [ $rc -ne 0 ]; then rm -rf $d; exit 3; fi
(cd $d && GOFLAGS=-mod=mod GOPROXY=off go build ./... 2>&1 | head -5)
/verif/bin/kcpverif unit -repo $d "$@" 2>&1 | grep -E "^(FAIL|UNSUPPORTED|total)" | head -8
rm -rf $d
