#!/usr/bin/env python3
"""Must-fail / must-pass corpus for the checks (run: ./selftest/corpus.py [Cxx ...]).

Every entry is a source edit applied to a scratch copy of /repo (never to /repo itself); the
property's quick check is run on the copy with `kcpverif check -repo <copy>`.
  expect 'violation': a deliberate property-breaking change that still compiles -> the check must
                      print a VIOLATION line (exit 1);
  expect 'pass':      a behaviour-preserving edit -> the check must stay quiet (exit 0).
The seeded changes under /verif/seeded/<id>/patch.diff are run as well (expect violation), except
those recorded as neutralised by a later fix.
Exit status 0 iff every expectation is met. Scratch copies live under /tmp and are removed.
"""
import json, os, shutil, subprocess, sys, tempfile

VERIF = os.path.dirname(os.path.dirname(os.path.abspath(__file__)))
REPO = "/repo"

CORPUS = [
    # --- C08
    ("C08", "violation", "decrypt16: xor before computing the next keystream block (breaks in place)", "crypt.go",
     "\t\tblock.Encrypt(next, s[32:48])\n\t\tsubtle.XORBytes(d[32:48], s[32:48], tbl)",
     "\t\tsubtle.XORBytes(d[32:48], s[32:48], tbl)\n\t\tblock.Encrypt(next, s[32:48])"),
    ("C08", "violation", "encrypt16: group advance 112 instead of 128", "crypt.go",
     "\t\tblock.Encrypt(tbl, d[112:128])\n\t\tbase += 128", "\t\tblock.Encrypt(tbl, d[112:128])\n\t\tbase += 112"),
    ("C08", "pass", "encrypt16: xor operands swapped (xor commutes)", "crypt.go",
     "\t\tsubtle.XORBytes(d[0:16], s[0:16], tbl)\n\t\tblock.Encrypt(tbl, d[0:16])",
     "\t\tsubtle.XORBytes(d[0:16], tbl, s[0:16])\n\t\tblock.Encrypt(tbl, d[0:16])"),
    # --- C12
    ("C12", "violation", "parse_data: direct comparison of sequence numbers", "kcp.go",
     "\t\t_itimediff(sn, kcp.rcv_nxt) < 0 {", "\t\tsn < kcp.rcv_nxt {"),
    ("C12", "violation", "Check: direct comparison of clock values", "kcp.go",
     "\tif _itimediff(current, ts_flush) >= 0 {\n\t\treturn current", "\tif current >= ts_flush {\n\t\treturn current"),
    ("C12", "violation", "segmentHeap.Less: direct comparison", "kcp.go",
     "\treturn _itimediff(h.segments[j].sn, h.segments[i].sn) > 0", "\treturn h.segments[j].sn > h.segments[i].sn"),
    ("C12", "violation", "RTO test through int64", "kcp.go",
     "\t\t\t} else if _itimediff(current, segment.resendts) >= 0 { // RTO",
     "\t\t\t} else if int64(current) >= int64(segment.resendts) { // RTO"),
    ("C12", "pass", "parse_una: operands and sign swapped", "kcp.go",
     "\t\tif _itimediff(una, seg.sn) > 0 {", "\t\tif _itimediff(seg.sn, una) < 0 {"),
    ("C12", "pass", "_itimediff computed in 64 bits and truncated (same function)", "kcp.go",
     "\treturn (int32)(later - earlier)", "\treturn int32(int64(later) - int64(earlier))"),
    # --- C14
    ("C14", "violation", "SetWindowSize without the session mutex", "sess.go",
     "\ts.mu.Lock()\n\ts.kcp.WndSize(sndwnd, rcvwnd)\n\ts.mu.Unlock()", "\ts.kcp.WndSize(sndwnd, rcvwnd)"),
    ("C14", "violation", "SetACKNoDelay: write after Unlock", "sess.go",
     "\ts.mu.Lock()\n\ts.ackNoDelay = nodelay\n\ts.mu.Unlock()", "\ts.mu.Lock()\n\ts.mu.Unlock()\n\ts.ackNoDelay = nodelay"),
    ("C14", "violation", "blockCrypt.Decrypt under the encryption mutex", "crypt.go",
     "\tc.decMu.Lock()\n\tdecrypt(c.decBlock, dst, src, c.decbuf)\n\tc.decMu.Unlock()",
     "\tc.encMu.Lock()\n\tdecrypt(c.decBlock, dst, src, c.decbuf)\n\tc.encMu.Unlock()"),
    ("C14", "violation", "session table written under a read lock", "sess.go",
     "\tl.sessionLock.Lock()\n\tl.sessions[addr.String()] = s\n\tl.sessionLock.Unlock()",
     "\tl.sessionLock.RLock()\n\tl.sessions[addr.String()] = s\n\tl.sessionLock.RUnlock()"),
    ("C14", "violation", "rngAES.Read without its mutex", "entropy.go",
     "\tr.mutex.Lock()\n\tr.updateSeed()\n\tr.block.Encrypt(r.seed[:], r.seed[:])\n\tn := copy(p, r.seed[:])\n\tr.mutex.Unlock()",
     "\tr.updateSeed()\n\tr.block.Encrypt(r.seed[:], r.seed[:])\n\tn := copy(p, r.seed[:])"),
    ("C14", "pass", "SetACKNoDelay with a deferred Unlock", "sess.go",
     "\ts.mu.Lock()\n\ts.ackNoDelay = nodelay\n\ts.mu.Unlock()", "\ts.mu.Lock()\n\tdefer s.mu.Unlock()\n\ts.ackNoDelay = nodelay"),
    ("C14", "pass", "GetConv under the mutex (conv is immutable: unnecessary but harmless)", "sess.go",
     "func (s *UDPSession) GetConv() uint32 { return s.kcp.conv }",
     "func (s *UDPSession) GetConv() uint32 {\n\ts.mu.Lock()\n\tdefer s.mu.Unlock()\n\treturn s.kcp.conv\n}"),
    # --- C15
    ("C15", "violation", "SendOOB: buffer recycled twice on the closed path", "sess.go",
     "\t\tdefaultBufferPool.Put(buf)\n\t\treturn errors.WithStack(io.ErrClosedPipe)",
     "\t\tdefaultBufferPool.Put(buf)\n\t\tdefaultBufferPool.Put(buf)\n\t\treturn errors.WithStack(io.ErrClosedPipe)"),
    ("C15", "violation", "kcpInput: recovered shard recycled before it is fed to KCP", "sess.go",
     "\t\t\t\t\tif ret := s.kcp.Input(r[2:sz], IKCP_PACKET_FEC, s.ackNoDelay); ret != 0 {",
     "\t\t\t\t\tdefaultBufferPool.Put(r)\n\t\t\t\t\tif ret := s.kcp.Input(r[2:sz], IKCP_PACKET_FEC, s.ackNoDelay); ret != 0 {"),
    ("C15", "violation", "parse_data: copy recycled after it was pushed into the reorder heap", "kcp.go",
     "\t\theap.Push(kcp.rcv_buf, newseg)", "\t\theap.Push(kcp.rcv_buf, newseg)\n\t\tdefaultBufferPool.Put(dataCopy)"),
    ("C15", "violation", "decode: packet recycled right after it was stored in the shard heap", "fec.go",
     "\tshard.Push(pkt)\n", "\tshard.Push(pkt)\n\tdefaultBufferPool.Put(pkt)\n"),
    ("C15", "violation", "output callback: buffer recycled after a successful enqueue", "sess.go",
     "\t\t\tcase sess.chPostProcessing <- sendRequest{bts, false}:",
     "\t\t\tcase sess.chPostProcessing <- sendRequest{bts, false}:\n\t\t\t\tdefaultBufferPool.Put(bts)"),
    ("C15", "pass", "SendOOB: recycle through a second variable", "sess.go",
     "\t\tdefaultBufferPool.Put(buf)\n\t\treturn errors.WithStack(io.ErrClosedPipe)",
     "\t\tb2 := buf\n\t\tdefaultBufferPool.Put(b2)\n\t\treturn errors.WithStack(io.ErrClosedPipe)"),
    # --- C16 / C07 (contracts and bounded stand-ins)
    ("C16", "violation", "decode: position test off by one (matching packets re-tune)", "fec.go",
     "\tif in.seqid()%uint32(dec.shardSize) < uint32(dec.dataShards) {", "\tif in.seqid()%uint32(dec.shardSize) <= uint32(dec.dataShards) {"),
    ("C16", "violation", "decode: group tracking not restarted on re-tune (the defect fixed in 0644e61)", "fec.go",
     "\t\t\t\tdec.newestShardId = in.seqid() / uint32(dec.shardSize)\n", ""),
    ("C07", "violation", "decode: shard placed at the wrong slot", "fec.go",
     "\t\t\tshards[seqid%uint32(dec.shardSize)] = pkt.data()", "\t\t\tshards[(seqid+1)%uint32(dec.shardSize)] = pkt.data()"),
    # --- C01
    ("C01", "violation", "parse_data: releases a segment one past rcv_nxt", "kcp.go",
     "\t\tif seg.sn == kcp.rcv_nxt && kcp.rcv_queue.Len() < int(kcp.rcv_wnd) {\n\t\t\tkcp.rcv_queue.Push(seg)\n\t\t\tkcp.rcv_nxt++\n\t\t} else {\n\t\t\t// push back segment\n\t\t\theap.Push(kcp.rcv_buf, seg)\n\t\t\tbreak\n\t\t}\n\t}\n\n\treturn repeat",
     "\t\tif (seg.sn == kcp.rcv_nxt || seg.sn == kcp.rcv_nxt+1) && kcp.rcv_queue.Len() < int(kcp.rcv_wnd) {\n\t\t\tkcp.rcv_queue.Push(seg)\n\t\t\tkcp.rcv_nxt++\n\t\t} else {\n\t\t\t// push back segment\n\t\t\theap.Push(kcp.rcv_buf, seg)\n\t\t\tbreak\n\t\t}\n\t}\n\n\treturn repeat"),
    # --- C11 / C19
    ("C11", "violation", "Close unregisters by address again (the defect fixed in ac14807)", "sess.go",
     "\t\ts.l.unregisterSession(s)", "\t\ts.l.closeSession(s.remote)"),
    ("C01", "violation", "Read: new left-over is the head instead of the tail of the staged message", "sess.go",
     "s.bufptr = s.recvbuf[n:] // pointer update", "s.bufptr = s.recvbuf[:n] // pointer update"),
    ("C01", "violation", "Read: left-over served but not consumed", "sess.go",
     "\t\t\ts.bufptr = s.bufptr[n:]\n\t\t\ts.mu.Unlock()", "\t\t\ts.mu.Unlock()"),
    ("C01", "violation", "Send (stream): a full chunk appended to the last segment loses its last byte", "kcp.go",
     "seg.data = seg.data[:oldlen+extend]", "seg.data = seg.data[:oldlen+extend-extend/1400]"),
    ("C01", "violation", "Input: payload handed to parse_data one byte short for large segments", "kcp.go",
     "data: data[:length], // delayed", "data: data[:length:length][:length-length/1400], // delayed"),
    ("C01", "pass", "Read: left-over copy through a temporary", "sess.go",
     "\t\t\tn = copy(b, s.bufptr)\n\t\t\ts.bufptr = s.bufptr[n:]", "\t\t\trest := s.bufptr\n\t\t\tn = copy(b, rest)\n\t\t\ts.bufptr = rest[n:]"),
    ("C01", "pass", "Send: size computed with an if instead of min", "kcp.go",
     "\t\tsize = min(len(buffer), int(kcp.mss))", "\t\tsize = len(buffer)\n\t\tif size > int(kcp.mss) {\n\t\t\tsize = int(kcp.mss)\n\t\t}"),
    ("C01", "pass", "Read: a harmless new loop the contract does not know (cut with automatic invariants)", "sess.go",
     "func (s *UDPSession) Read(b []byte) (n int, err error) {\n\tvar timeout *time.Timer\n",
     "func (s *UDPSession) Read(b []byte) (n int, err error) {\n\tspins := 0\n\tfor k := 0; k < len(b) && k < 4; k++ {\n\t\tspins++\n\t}\n\t_ = spins\n\tvar timeout *time.Timer\n"),
    # --- C09
    ("C09", "violation", "flush: retransmitted segments keep their old una", "kcp.go",
     "\t\t\t\tsegment.una = seg.una\n", ""),
    ("C09", "violation", "Input: sn and una offsets swapped", "kcp.go",
     "\t\tsn := binary.LittleEndian.Uint32(data[12:])\n\t\tuna := binary.LittleEndian.Uint32(data[16:])",
     "\t\tsn := binary.LittleEndian.Uint32(data[16:])\n\t\tuna := binary.LittleEndian.Uint32(data[12:])"),
    # --- C18
    ("C18", "violation", "flush: fast-resend threshold 0 when disabled", "kcp.go",
     "\t\tresent = 0xffffffff\n", "\t\tresent = 0\n"),
    ("C18", "pass", "flush: disabled marker computed in one expression", "kcp.go",
     "\tresent := uint32(kcp.fastresend)\n\tif kcp.fastresend <= 0 {\n\t\tresent = 0xffffffff\n\t}",
     "\tresent := uint32(0xffffffff)\n\tif kcp.fastresend > 0 {\n\t\tresent = uint32(kcp.fastresend)\n\t}"),
    # --- C15 (callback half)
    ("C15", "violation", "update: re-arms itself whether or not the session is closed", "sess.go",
     "\tselect {\n\tcase <-s.die:\n\tdefault:\n\t\ts.mu.Lock()\n\t\tinterval := s.kcp.flush(IKCP_FLUSH_FULL)",
     "\tselect {\n\tcase <-s.die:\n\t\tSystemTimedSched.Put(s.update, time.Now().Add(time.Second))\n\tdefault:\n\t\ts.mu.Lock()\n\t\tinterval := s.kcp.flush(IKCP_FLUSH_FULL)"),
    ("C15", "pass", "update: closed test through isClosed()", "sess.go",
     "\tselect {\n\tcase <-s.die:\n\tdefault:\n\t\ts.mu.Lock()\n\t\tinterval := s.kcp.flush(IKCP_FLUSH_FULL)",
     "\tif s.isClosed() {\n\t\treturn\n\t}\n\t{\n\t\ts.mu.Lock()\n\t\tinterval := s.kcp.flush(IKCP_FLUSH_FULL)"),
    ("C15", "pass", "postProcess: die case re-armed at the top of the request arm as well", "sess.go",
     "\t\t\tbuf := req.buffer\n\t\t\toob := req.oob\n", "\t\t\tbuf := req.buffer\n\t\t\toob := req.oob\n\t\t\tchDie = s.die // re-enable die channel (moved up)\n"),
    ("C11", "pass", "packetInput: backlog test through a local", "sess.go",
     "\tif len(l.chAccepts) >= cap(l.chAccepts) {\n\t\treturn\n\t}", "\tfull := len(l.chAccepts) >= cap(l.chAccepts)\n\tif full {\n\t\treturn\n\t}"),
    ("C11", "violation", "packetInput: backlog test off by one slot too many", "sess.go",
     "\tif len(l.chAccepts) >= cap(l.chAccepts) {\n\t\treturn\n\t}", "\tif len(l.chAccepts) > cap(l.chAccepts) {\n\t\treturn\n\t}"),
    # --- C14 (atomic-only counters)
    ("C14", "violation", "Input: InSegs bumped with a plain +=", "kcp.go",
     "\tatomic.AddUint64(&DefaultSnmp.InSegs, inSegs)", "\tDefaultSnmp.InSegs += inSegs"),
    # --- C20
    ("C20", "violation", "RingBuffer.Pop does not clear the vacated slot", "ringbuffer.go", None, None),
]


def run(cmd, **kw):
    return subprocess.run(cmd, stdout=subprocess.PIPE, stderr=subprocess.STDOUT, text=True, **kw)


def check_on(copy, prop):
    r = run([os.path.join(VERIF, "bin", "kcpverif"), "check", "-prop", prop, "-repo", copy, "-evidence=false"])
    viol = [l for l in r.stdout.splitlines() if l.startswith("VIOLATION")]
    return r.returncode, viol, r.stdout


def main():
    args = sys.argv[1:]
    only_seeds = None  # --seeds id,id,...: run just these seeded changes
    if "--seeds" in args:
        k = args.index("--seeds")
        only_seeds = set(args[k + 1].split(","))
        args = args[:k] + args[k + 2:]
    only = set(args)
    results = []
    ok_all = True
    entries = []
    for prop, expect, what, f, old, new in CORPUS:
        if old is None:
            continue
        entries.append((prop, expect, what, ("edit", f, old, new)))
    seeded = os.path.join(VERIF, "seeded")
    for sid in sorted(os.listdir(seeded)):
        meta = json.load(open(os.path.join(seeded, sid, "meta.json")))
        if "no longer applies" in meta.get("detected_by", ""):
            continue
        entries.append((meta.get("property", sid[:3]), "violation", "seeded change " + sid, ("patch", os.path.join(seeded, sid, "patch.diff"))))
    for prop, expect, what, action in entries:
        if only and prop not in only:
            continue
        if only_seeds is not None and not (what.startswith("seeded change ") and what[len("seeded change "):] in only_seeds):
            continue
        d = tempfile.mkdtemp(prefix="kcpself.", dir="/tmp")
        try:
            run(["rsync", "-a", "--exclude", ".git", REPO + "/", d + "/"])
            if action[0] == "edit":
                _, f, old, new = action
                p = os.path.join(d, f)
                s = open(p).read()
                if s.count(old) == 0:
                    print(f"SKIP  {prop:4} {what}: edit does not apply to the current tree")
                    ok_all = False
                    continue
                open(p, "w").write(s.replace(old, new, 1))
            else:
                r = run(["patch", "-p1", "-s", "-i", action[1]], cwd=d)
                if r.returncode != 0:
                    print(f"SKIP  {prop:4} {what}: patch does not apply to the current tree")
                    continue
            b = run(["go", "build", "./..."], cwd=d, env=dict(os.environ, GOFLAGS="-mod=mod", GOPROXY="off"))
            if b.returncode != 0:
                print(f"SKIP  {prop:4} {what}: does not compile: {b.stdout[:200]}")
                ok_all = False
                continue
            rc, viol, out = check_on(d, prop)
            good = (expect == "violation" and rc == 1 and viol) or (expect == "pass" and rc == 0 and not viol)
            ok_all &= bool(good)
            first = viol[0][:200] if viol else out.strip().splitlines()[-1][:200]
            print(f"{'ok   ' if good else 'WRONG'} {prop:4} expect={expect:9} rc={rc} {what}\n        {first}")
        finally:
            shutil.rmtree(d, ignore_errors=True)
    sys.exit(0 if ok_all else 1)


if __name__ == "__main__":
    main()
