package kcp

// Demonstration for the C14 finding "one SM4 blockCrypt used by Encrypt and Decrypt concurrently
// races inside the cipher object": the two directions hold different mutexes but shared one
// tjfoc/gmsm Sm4Cipher, which keeps scratch state. Any SM4 session reaches this in normal use
// (post-processing goroutine encrypts while the read loop decrypts).
// Run: copy into a scratch copy of the repository; go test -race -run TestVerifC14SM4SharedBlockRace .

import (
	"sync"
	"testing"
)

func TestVerifC14SM4SharedBlockRace(t *testing.T) {
	bc, err := NewSM4BlockCrypt(make([]byte, 16))
	if err != nil {
		t.Fatal(err)
	}
	var wg sync.WaitGroup
	wg.Add(2)
	go func() {
		defer wg.Done()
		buf := make([]byte, 64)
		for i := 0; i < 2000; i++ {
			bc.Encrypt(buf, buf)
		}
	}()
	go func() {
		defer wg.Done()
		buf := make([]byte, 64)
		for i := 0; i < 2000; i++ {
			bc.Decrypt(buf, buf)
		}
	}()
	wg.Wait()
}
