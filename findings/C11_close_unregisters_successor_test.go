package kcp

// Demonstration for the C11 finding "a session's Close can unregister its successor":
// UDPSession.Close fires dieOnce, flushes under s.mu and only then calls
// Listener.closeSession(s.remote), which deletes whatever session is registered for that
// address. If, in that window, the listener replaces the session (same address, new
// conversation, sn 0), the late closeSession removes the NEW session from the table: the next
// datagram of the new conversation creates a third session and a second Accept for one peer.
// The window is held open deterministically by holding s.mu (in-package test).
// Run: copy into a scratch copy of the repository; go test -run TestVerifC11CloseUnregistersSuccessor .

import (
	"encoding/binary"
	"net"
	"testing"
	"time"
)

func TestVerifC11CloseUnregistersSuccessor(t *testing.T) {
	l, err := ListenWithOptions("127.0.0.1:0", nil, 0, 0)
	if err != nil {
		t.Fatal(err)
	}
	defer l.Close()
	peer := &net.UDPAddr{IP: net.IPv4(127, 0, 0, 1), Port: 40001}
	push := func(conv uint32) []byte {
		b := make([]byte, IKCP_OVERHEAD+1)
		binary.LittleEndian.PutUint32(b, conv)
		b[4] = IKCP_CMD_PUSH
		binary.LittleEndian.PutUint16(b[6:], 32)  // wnd
		binary.LittleEndian.PutUint32(b[12:], 0)  // sn
		binary.LittleEndian.PutUint32(b[20:], 1)  // len
		b[IKCP_OVERHEAD] = 'x'
		return b
	}
	l.packetInput(push(1001), peer)
	s1, err := l.AcceptKCP()
	if err != nil {
		t.Fatal(err)
	}
	// the application closes s1; hold the window between dieOnce and closeSession open
	s1.mu.Lock()
	done := make(chan struct{})
	go func() { s1.Close(); close(done) }()
	for !s1.isClosed() {
		time.Sleep(time.Millisecond)
	}
	// the peer reconnects from the same address with a new conversation
	l.packetInput(push(2002), peer)
	s2, err := l.AcceptKCP()
	if err != nil {
		t.Fatal(err)
	}
	if s2.GetConv() != 2002 {
		t.Fatalf("unexpected session conv %d", s2.GetConv())
	}
	s1.mu.Unlock()
	<-done
	l.sessionLock.RLock()
	cur := l.sessions[peer.String()]
	l.sessionLock.RUnlock()
	if cur != s2 {
		t.Fatalf("closing the old session (conv 1001) unregistered its successor (conv 2002): table has %v", cur)
	}
}
