package kcp

import "testing"

// C10: an MTU that SetMtu accepts must be honoured without crashing; one that cannot be
// honoured must be refused. Before the fix the core accepted (a) values whose mss exceeds the
// 1500-byte pool buffers segments live in, and (b) a shrink below an already queued segment.
func TestVerifReplaySetMtu(t *testing.T) {
	run := func(name string, f func(kcp *KCP, maxOut *int)) {
		t.Run(name, func(t *testing.T) {
			maxOut := 0
			var kcp *KCP
			kcp = NewKCP(1, func(buf []byte, size int) {
				if size <= 0 || size > int(kcp.mtu) {
					t.Errorf("output callback got size %d with mtu %d", size, kcp.mtu)
				}
				if size > maxOut {
					maxOut = size
				}
			})
			kcp.NoDelay(1, 10, 2, 1)
			defer func() {
				if r := recover(); r != nil {
					t.Fatalf("PANIC: %v", r)
				}
			}()
			f(kcp, &maxOut)
		})
	}
	run("grow beyond pool buffer", func(kcp *KCP, _ *int) {
		if kcp.SetMtu(2000) == 0 {
			kcp.Send(make([]byte, 1600))
			kcp.flush(IKCP_FLUSH_FULL)
		}
	})
	run("shrink below queued segment", func(kcp *KCP, _ *int) {
		kcp.Send(make([]byte, 1376))
		if kcp.SetMtu(50) == 0 {
			kcp.flush(IKCP_FLUSH_FULL)
		}
	})
	run("shrink below queued segment (no crash but oversize packet)", func(kcp *KCP, _ *int) {
		kcp.Send(make([]byte, 1376))
		if kcp.SetMtu(1000) == 0 {
			kcp.flush(IKCP_FLUSH_FULL)
		}
	})
}
