package kcp

import (
	"encoding/binary"
	"testing"
)

func TestVerifReplayInputLong(t *testing.T) {
	kcp := NewKCP(1, func(buf []byte, size int) {})
	data := make([]byte, 24+2000)
	binary.LittleEndian.PutUint32(data, 1)
	data[4] = IKCP_CMD_PUSH
	binary.LittleEndian.PutUint32(data[20:], 2000)
	defer func() {
		if r := recover(); r != nil {
			t.Fatalf("PANIC: %v", r)
		}
	}()
	kcp.Input(data, IKCP_PACKET_REGULAR, false)
}
