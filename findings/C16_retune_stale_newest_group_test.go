package kcp

// Demonstration for the C16 finding "after adopting the peer's ratio the decoder keeps the newest
// group id counted in groups of the OLD size": a receiver at the lazy default 1/1 (FEC enabled at
// the sender only) facing a 100/28 sender adopts 100/28 within the promised run, but every shard
// set it then opens is discarded at once as 'too old' (stale newestShardId ~ seq/2 against group
// ids seq/128), so no loss is recovered for roughly 18 000 further packets.
// Run: copy into a scratch copy of the repository; go test -run TestVerifC16RetuneStaleNewest .

import (
	"bytes"
	"testing"
)

func TestVerifC16RetuneStaleNewest(t *testing.T) {
	sd, sp := 100, 28
	enc := newFECEncoder(sd, sp, 0)
	// the receiver joins a long-running sender at a position where the first packets happen to
	// be consistent with its own 1/1 layout (a parity packet at an odd id, then data at an even id)
	enc.next = 128 * 7812 // group aligned; the receiver misses the first 127 packets of this group
	dec := newFECDecoder(1, 1)
	next := func() [][]byte {
		b := make([]byte, fecHeaderSizePlus2+20)
		for k := fecHeaderSizePlus2; k < len(b); k++ {
			b[k] = byte(k * 7)
		}
		ps := enc.encode(b, 1<<30)
		out := [][]byte{append([]byte(nil), b...)}
		for _, q := range ps {
			out = append(out, append([]byte(nil), q...))
		}
		return out
	}
	var stream [][]byte
	for len(stream) < 127 {
		stream = append(stream, next()...)
	}
	stream = stream[127:]
	for fed := 0; fed < 258+2*(sd+sp); fed++ {
		if len(stream) == 0 {
			stream = next()
		}
		dec.decode(fecPacket(stream[0]))
		stream = stream[1:]
	}
	if dec.dataShards != sd || dec.parityShards != sp || dec.shouldTune {
		t.Fatalf("not converged: %d/%d shouldTune=%v", dec.dataShards, dec.parityShards, dec.shouldTune)
	}
	for enc.shardCount != 0 || len(stream) > 0 { // finish the current group
		if len(stream) == 0 {
			stream = next()
		}
		dec.decode(fecPacket(stream[0]))
		stream = stream[1:]
	}
	var lost []byte
	var rec [][]byte
	for i := 0; i < sd; i++ { // next group: its first data packet is lost
		ps := next()
		if i == 0 {
			lost, ps = ps[0], ps[1:]
		}
		for _, q := range ps {
			rec = append(rec, dec.decode(fecPacket(q))...)
		}
	}
	for _, r := range rec {
		if bytes.HasPrefix(r, lost[fecHeaderSize:]) {
			return
		}
	}
	t.Fatalf("converged to %d/%d but the lost data packet of the next group was not recovered (%d packets emitted, %d shard sets held, newestShardId %d)", sd, sp, len(rec), len(dec.shardSet), dec.newestShardId)
}
