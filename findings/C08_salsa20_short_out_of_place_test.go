package kcp

// Demonstration for the C08 finding "salsa20 Encrypt/Decrypt leave dst unwritten for packets
// shorter than the 8-byte nonce when dst != src" (obligation
// salsa20BlockCrypt.Encrypt@len=1..7,out-of-place:ensures:[short-packet-passes-through]).
// Run: cp this file into a scratch copy of the repository and `go test -run TestVerifC08SalsaShort .`
// Before the fix it fails (the round trip into separate buffers returns zeros); after it passes.

import (
	"bytes"
	"testing"
)

func TestVerifC08SalsaShort(t *testing.T) {
	bc, err := NewSalsa20BlockCrypt(make([]byte, 32))
	if err != nil {
		t.Fatal(err)
	}
	for n := 0; n < 8; n++ {
		src := []byte{1, 2, 3, 4, 5, 6, 7}[:n]
		enc := make([]byte, n)
		bc.Encrypt(enc, src)
		dec := make([]byte, n)
		bc.Decrypt(dec, enc)
		if !bytes.Equal(dec, src) {
			t.Fatalf("len %d: round trip out of place gives %v, want %v", n, dec, src)
		}
	}
}
