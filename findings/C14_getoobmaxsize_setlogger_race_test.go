package kcp

// Demonstration for the C14 findings (run with the race detector):
//   (a) UDPSession.GetOOBMaxSize reads kcp.mtu without s.mu while SetMtu writes it under s.mu;
//   (b) UDPSession.SetLogger writes kcp.logmask / kcp.log without s.mu (two concurrent callers race).
// Run: copy into a scratch copy of the repository;
//   go test -race -run 'TestVerifC14' .      -> "WARNING: DATA RACE" before the fixes, clean after.

import (
	"net"
	"sync"
	"testing"
)

func newVerifC14Session(t *testing.T) *UDPSession {
	conn, err := net.ListenPacket("udp", "127.0.0.1:0")
	if err != nil {
		t.Fatal(err)
	}
	raddr := &net.UDPAddr{IP: net.IPv4(127, 0, 0, 1), Port: 9}
	s, err := NewConn4(77, raddr, nil, 2, 1, true, conn)
	if err != nil {
		t.Fatal(err)
	}
	return s
}

func TestVerifC14GetOOBMaxSizeRace(t *testing.T) {
	s := newVerifC14Session(t)
	defer s.Close()
	var wg sync.WaitGroup
	wg.Add(2)
	go func() {
		defer wg.Done()
		for i := 0; i < 2000; i++ {
			s.SetMtu(1000 + i%100)
		}
	}()
	go func() {
		defer wg.Done()
		for i := 0; i < 2000; i++ {
			_ = s.GetOOBMaxSize()
		}
	}()
	wg.Wait()
}

func TestVerifC14SetLoggerRace(t *testing.T) {
	s := newVerifC14Session(t)
	defer s.Close()
	var wg sync.WaitGroup
	for g := 0; g < 2; g++ {
		wg.Add(1)
		go func() {
			defer wg.Done()
			for i := 0; i < 2000; i++ {
				s.SetLogger(IKCP_LOG_ALL, func(string, ...any) {})
			}
		}()
	}
	wg.Wait()
}
