package kcp

import "testing"

// C18: the reported RTO must lie in [rx_minrto, 60000]. Before the fix, switching no-delay
// mode off left rx_rto (30) below the new minimum (100) until the next acknowledgement.
func TestVerifReplayNoDelayRTO(t *testing.T) {
	kcp := NewKCP(1, func(buf []byte, size int) {})
	kcp.NoDelay(1, 10, 2, 1)
	kcp.update_ack(1) // one RTT sample of 1 ms: rx_rto clamps to the no-delay minimum 30
	if kcp.rx_rto != 30 {
		t.Fatalf("setup: rx_rto=%d", kcp.rx_rto)
	}
	kcp.NoDelay(0, 10, 2, 1)
	if kcp.rx_rto < kcp.rx_minrto {
		t.Fatalf("rx_rto=%d below rx_minrto=%d", kcp.rx_rto, kcp.rx_minrto)
	}
}
