package kcp

// BOUNDED stand-in for the session layer of C01 (never counted as proved): two real UDPSessions
// (client made by NewConn4, server accepted by a real Listener) joined by an in-memory
// PacketConn pair whose datagrams follow a fixed fault pattern (every 7th dropped, every 5th
// duplicated, every 3rd held back behind the next one), for every combination of
// {no cipher, AES-128 CFB, Salsa20, AES-128-GCM} x {no FEC, FEC 3/2, FEC 10/3} x {stream,
// message} mode (thorough also x {MTU 1400, 576}); the writer issues writes of 1 byte .. 3 MSS,
// the reader reads with buffers of 1 byte .. 4 KB. Checked: the bytes read are exactly a prefix
// of the bytes written at every read, and the whole transfer arrives.

import (
	"bytes"
	"crypto/sha1"
	"fmt"
	"net"
	"os"
	"sync"
	"testing"
	"time"

	"golang.org/x/crypto/pbkdf2"
)

type verifMemAddr string

func (a verifMemAddr) Network() string { return "mem" }
func (a verifMemAddr) String() string  { return string(a) }

type verifMemPkt struct {
	b    []byte
	from net.Addr
}

type verifMemConn struct {
	self  verifMemAddr
	in    chan verifMemPkt
	peer  *verifMemConn
	mu    sync.Mutex
	n     int
	held  *verifMemPkt
	close chan struct{}
	once  sync.Once
}

func newVerifMemPair() (*verifMemConn, *verifMemConn) {
	a := &verifMemConn{self: "mem:a", in: make(chan verifMemPkt, 4096), close: make(chan struct{})}
	b := &verifMemConn{self: "mem:b", in: make(chan verifMemPkt, 4096), close: make(chan struct{})}
	a.peer, b.peer = b, a
	return a, b
}

func (c *verifMemConn) deliver(p verifMemPkt) {
	select {
	case c.peer.in <- p:
	default:
	}
}

func (c *verifMemConn) WriteTo(p []byte, _ net.Addr) (int, error) {
	pkt := verifMemPkt{append([]byte(nil), p...), c.self}
	c.mu.Lock()
	c.n++
	n := c.n
	held := c.held
	c.held = nil
	c.mu.Unlock()
	switch {
	case n%7 == 0: // dropped
	case n%5 == 0: // duplicated
		c.deliver(pkt)
		c.deliver(verifMemPkt{append([]byte(nil), p...), c.self})
	case n%3 == 0: // held back behind the next datagram
		c.mu.Lock()
		c.held = &pkt
		c.mu.Unlock()
	default:
		c.deliver(pkt)
	}
	if held != nil {
		c.deliver(*held)
	}
	return len(p), nil
}

func (c *verifMemConn) ReadFrom(p []byte) (int, net.Addr, error) {
	select {
	case pkt := <-c.in:
		return copy(p, pkt.b), pkt.from, nil
	case <-c.close:
		return 0, nil, fmt.Errorf("closed")
	}
}

func (c *verifMemConn) Close() error                     { c.once.Do(func() { close(c.close) }); return nil }
func (c *verifMemConn) LocalAddr() net.Addr              { return c.self }
func (c *verifMemConn) SetDeadline(time.Time) error      { return nil }
func (c *verifMemConn) SetReadDeadline(time.Time) error  { return nil }
func (c *verifMemConn) SetWriteDeadline(time.Time) error { return nil }

func verifBlock(name string) BlockCrypt {
	key := pbkdf2.Key([]byte("verif"), []byte("salt"), 64, 32, sha1.New)
	switch name {
	case "aes":
		b, _ := NewAESBlockCrypt(key[:16])
		return b
	case "salsa20":
		b, _ := NewSalsa20BlockCrypt(key)
		return b
	case "gcm":
		b, _ := NewAESGCMCrypt(key[:16])
		return b
	}
	return nil
}

func verifSessionRun(cipher string, ds, ps int, stream bool, mtu int) error {
	ca, cb := newVerifMemPair()
	l, err := ServeConn(verifBlock(cipher), ds, ps, cb)
	if err != nil {
		return err
	}
	defer l.Close()
	cli, err := NewConn4(4242, cb.self, verifBlock(cipher), ds, ps, true, ca)
	if err != nil {
		return err
	}
	defer cli.Close()
	for _, s := range []*UDPSession{cli} {
		s.SetNoDelay(1, 10, 2, 1)
		s.SetWindowSize(64, 64)
		s.SetStreamMode(stream)
		if !s.SetMtu(mtu) {
			return fmt.Errorf("SetMtu(%d) refused", mtu)
		}
	}
	mss := int(cli.kcp.mss)
	sizes := []int{1, 7, mss - 1, mss, mss + 1, 2*mss + 5, 3, 3 * mss, 50, 900}
	var want bytes.Buffer
	seed := byte(9)
	var chunks [][]byte
	for i := 0; i < 30; i++ {
		m := make([]byte, sizes[i%len(sizes)])
		for k := range m {
			seed = seed*17 + 3
			m[k] = seed
		}
		chunks = append(chunks, m)
		want.Write(m)
	}
	errc := make(chan error, 2)
	go func() {
		for _, m := range chunks {
			cli.SetWriteDeadline(time.Now().Add(20 * time.Second))
			if _, err := cli.Write(m); err != nil {
				errc <- fmt.Errorf("write: %v", err)
				return
			}
		}
		errc <- nil
	}()
	l.SetDeadline(time.Now().Add(20 * time.Second))
	srv, err := l.AcceptKCP()
	if err != nil {
		return fmt.Errorf("accept: %v", err)
	}
	defer srv.Close()
	srv.SetNoDelay(1, 10, 2, 1)
	srv.SetWindowSize(64, 64)
	srv.SetStreamMode(stream)
	srv.SetMtu(mtu)
	var got bytes.Buffer
	rsizes := []int{1, 4096, 3, 100, mss, 17, 2000}
	for i := 0; got.Len() < want.Len(); i++ {
		buf := make([]byte, rsizes[i%len(rsizes)])
		srv.SetReadDeadline(time.Now().Add(20 * time.Second))
		n, err := srv.Read(buf)
		if err != nil {
			return fmt.Errorf("read after %d of %d bytes: %v", got.Len(), want.Len(), err)
		}
		got.Write(buf[:n])
		if got.Len() > want.Len() || !bytes.Equal(got.Bytes(), want.Bytes()[:got.Len()]) {
			return fmt.Errorf("the bytes read are not a prefix of the bytes written (after %d bytes)", got.Len())
		}
	}
	return <-errc
}

func TestVerifBounded(t *testing.T) {
	mtus := []int{1400}
	if os.Getenv("VERIF_BOUND") == "thorough" {
		mtus = []int{1400, 576}
	}
	type job struct {
		cipher string
		ds, ps int
		stream bool
		mtu    int
	}
	var jobs []job
	for _, c := range []string{"none", "aes", "salsa20", "gcm"} {
		for _, f := range [][2]int{{0, 0}, {3, 2}, {10, 3}} {
			for _, st := range []bool{true, false} {
				for _, m := range mtus {
					jobs = append(jobs, job{c, f[0], f[1], st, m})
				}
			}
		}
	}
	var wg sync.WaitGroup
	errs := make([]error, len(jobs))
	sem := make(chan struct{}, 8)
	for i, j := range jobs {
		wg.Add(1)
		go func(i int, j job) {
			defer wg.Done()
			sem <- struct{}{}
			defer func() { <-sem }()
			errs[i] = verifSessionRun(j.cipher, j.ds, j.ps, j.stream, j.mtu)
		}(i, j)
	}
	wg.Wait()
	for i, e := range errs {
		if e != nil {
			j := jobs[i]
			t.Errorf("BOUNDED-VIOLATION: cipher=%s fec=%d/%d stream=%v mtu=%d: %v", j.cipher, j.ds, j.ps, j.stream, j.mtu, e)
		}
	}
	fmt.Printf("BOUNDED-COVERAGE: session stream prefix: %d configurations (cipher x FEC x mode x MTU) over a lossy, duplicating, reordering in-memory link\n", len(jobs))
}
