package kcp

// BOUNDED stand-in for the one receive-path safety obligation that is not discharged by contract
// (KCP.Recv: `buffer = buffer[len(seg.data):]` needs PeekSize and Recv to agree on where a message
// ends, a prefix-sum argument over the queue) - never counted as proved: a real core is fed forged
// but well-formed in-order PUSH segments whose fragment fields do not count down - every vector of
// up to K segments with frg in {0, 1, 2, 255} and payload lengths in {0, 1, 3} - and is then read
// with buffers of exactly PeekSize() bytes, of one byte less (must be refused with -2), and of a
// generous size, until the queue is empty: no call may panic and Recv must return PeekSize().
// Bounds: quick K = 4 (20655 queues), thorough K = 5.

import (
	"encoding/binary"
	"fmt"
	"os"
	"testing"
)

func verifForgedPush(conv, sn uint32, frg byte, n int) []byte {
	b := make([]byte, IKCP_OVERHEAD+n)
	binary.LittleEndian.PutUint32(b, conv)
	b[4] = IKCP_CMD_PUSH
	b[5] = frg
	binary.LittleEndian.PutUint16(b[6:], 128)
	binary.LittleEndian.PutUint32(b[12:], sn)
	binary.LittleEndian.PutUint32(b[20:], uint32(n))
	for i := 0; i < n; i++ {
		b[IKCP_OVERHEAD+i] = byte(sn) + byte(i)
	}
	return b
}

func verifRecvForged(frgs []byte, lens []int, mode int) (err error) {
	defer func() {
		if p := recover(); p != nil {
			err = fmt.Errorf("panic: %v", p)
		}
	}()
	k := NewKCP(5, func([]byte, int) {})
	k.WndSize(32, 32)
	for i := range frgs {
		k.Input(verifForgedPush(5, uint32(i), frgs[i], lens[i]), IKCP_PACKET_REGULAR, false)
	}
	for step := 0; step < 2*len(frgs)+2; step++ {
		sz := k.PeekSize()
		if sz < 0 {
			return nil
		}
		switch mode {
		case 0:
			if n := k.Recv(make([]byte, sz)); n != sz {
				return fmt.Errorf("Recv into a buffer of PeekSize()=%d bytes returned %d", sz, n)
			}
		case 1:
			if sz > 0 {
				if n := k.Recv(make([]byte, sz-1)); n != -2 {
					return fmt.Errorf("Recv into a buffer one byte short of PeekSize()=%d returned %d, want -2", sz, n)
				}
			}
			if n := k.Recv(make([]byte, sz)); n != sz {
				return fmt.Errorf("Recv returned %d, PeekSize() was %d", n, sz)
			}
		default:
			if n := k.Recv(make([]byte, 4096)); n != sz {
				return fmt.Errorf("Recv into a large buffer returned %d, PeekSize() was %d", n, sz)
			}
		}
	}
	return nil
}

func TestVerifBounded(t *testing.T) {
	K := 4
	if os.Getenv("VERIF_BOUND") == "thorough" {
		K = 5
	}
	fv := []byte{0, 1, 2, 255}
	lv := []int{0, 1, 3}
	runs := 0
	for k := 1; k <= K; k++ {
		total := 1
		for i := 0; i < k; i++ {
			total *= len(fv) * len(lv)
		}
		for v := 0; v < total; v++ {
			frgs := make([]byte, k)
			lens := make([]int, k)
			x := v
			for i := 0; i < k; i++ {
				frgs[i] = fv[x%len(fv)]
				x /= len(fv)
				lens[i] = lv[x%len(lv)]
				x /= len(lv)
			}
			for mode := 0; mode < 3; mode++ {
				runs++
				if err := verifRecvForged(frgs, lens, mode); err != nil {
					t.Fatalf("BOUNDED-VIOLATION: forged fragment fields %v payload lengths %v (read mode %d): %v", frgs, lens, mode, err)
				}
			}
		}
	}
	fmt.Printf("BOUNDED-COVERAGE: forged fragment fields into Recv: %d runs (queues of up to %d segments x 3 read modes)\n", runs, K)
}
