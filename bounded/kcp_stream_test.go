package kcp

// BOUNDED stand-in for the whole-history part of C01 (never counted as proved): two real KCP
// cores joined by an in-memory network whose per-datagram fates are enumerated - every fate
// vector of length L over {deliver, drop, duplicate, delay by 30 ms so that later datagrams
// overtake it} applied cyclically to the datagrams of both directions (quick L=5: 1024 vectors,
// thorough L=7: 16384) - in stream mode and message mode, with write sizes from 1 byte to
// several MSS and a small window, under a virtual clock (refTime is moved, nothing sleeps); the
// message-mode runs start their sequence numbers just below 2^32.
// Checked at every step: what the reader has received is exactly a prefix of what the writer
// has been accepted to send (stream mode: bytes; message mode: whole messages with their
// boundaries). Runs whose vector drops at most one datagram per cycle must also complete
// (a periodic network that drops more can starve one segment for ever: liveness, C02).

import (
	"bytes"
	"errors"
	"fmt"
	"os"
	"testing"
	"time"
)

type verifNet struct {
	fates []int
	n     int
	held  [][]byte
	holdN []int
	dst   **KCP
}

func (nw *verifNet) send(buf []byte, size int) {
	pkt := append([]byte(nil), buf[:size]...)
	f := nw.fates[nw.n%len(nw.fates)]
	nw.n++
	switch f {
	case 0:
		(*nw.dst).Input(pkt, IKCP_PACKET_REGULAR, false)
	case 1: // drop
	case 2:
		(*nw.dst).Input(pkt, IKCP_PACKET_REGULAR, false)
		(*nw.dst).Input(append([]byte(nil), pkt...), IKCP_PACKET_REGULAR, false)
	case 3: // delayed by 30 ms: overtaken by everything sent in between
		nw.held = append(nw.held, pkt)
		nw.holdN = append(nw.holdN, 3)
	}
}

// tick releases the delayed datagrams whose time has come.
func (nw *verifNet) tick() {
	var keep [][]byte
	var keepN []int
	for i := range nw.held {
		nw.holdN[i]--
		if nw.holdN[i] <= 0 {
			(*nw.dst).Input(nw.held[i], IKCP_PACKET_REGULAR, false)
		} else {
			keep = append(keep, nw.held[i])
			keepN = append(keepN, nw.holdN[i])
		}
	}
	nw.held, nw.holdN = keep, keepN
}

var errVerifIncomplete = fmt.Errorf("incomplete")

func verifStreamRun(fates []int, stream bool) error {
	saved := refTime
	defer func() { refTime = saved }()
	var a, b *KCP
	ab := &verifNet{fates: fates, dst: &b}
	ba := &verifNet{fates: fates, n: 2, dst: &a}
	a = NewKCP(9, ab.send)
	b = NewKCP(9, ba.send)
	for _, k := range []*KCP{a, b} {
		k.NoDelay(1, 10, 2, 1)
		k.WndSize(8, 8)
		k.SetMtu(200)
		if stream {
			k.stream = 1
		} else {
			// the message-mode runs start just below the 32-bit sequence-number wrap, so that the
			// reordered and retransmitted segments of every fate vector straddle it
			k.snd_una, k.snd_nxt, k.rcv_nxt = 1<<32-5, 1<<32-5, 1<<32-5
		}
	}
	mss := int(a.mss)
	sizes := []int{1, 7, mss - 1, mss, mss + 1, 2*mss + 5, 3, 3 * mss, 50}
	var sent bytes.Buffer
	var msgs [][]byte
	var got bytes.Buffer
	gotMsgs := 0
	seed := byte(5)
	nextMsg := 0
	const total = 18
	buf := make([]byte, 8192)
	for step := 0; step < 20000; step++ {
		if nextMsg < total && a.WaitSnd() < 8 {
			m := make([]byte, sizes[nextMsg%len(sizes)])
			for i := range m {
				seed = seed*13 + 1
				m[i] = seed
			}
			if a.Send(m) >= 0 {
				sent.Write(m)
				msgs = append(msgs, m)
				nextMsg++
			}
		}
		refTime = refTime.Add(-10 * time.Millisecond) // the clock advances 10 ms
		ab.tick()
		ba.tick()
		a.Update()
		b.Update()
		for {
			n := b.PeekSize()
			if n <= 0 {
				break
			}
			n = b.Recv(buf)
			if n <= 0 {
				break
			}
			if stream {
				got.Write(buf[:n])
				if got.Len() > sent.Len() || !bytes.Equal(got.Bytes(), sent.Bytes()[:got.Len()]) {
					return fmt.Errorf("step %d: received bytes are not a prefix of the written bytes (received %d, written %d)", step, got.Len(), sent.Len())
				}
			} else {
				if gotMsgs >= len(msgs) || !bytes.Equal(buf[:n], msgs[gotMsgs]) {
					return fmt.Errorf("step %d: message %d returned with %d bytes does not equal the message written (boundaries or content)", step, gotMsgs, n)
				}
				gotMsgs++
			}
		}
		if nextMsg == total && ((stream && got.Len() == sent.Len()) || (!stream && gotMsgs == total)) {
			return nil
		}
	}
	return fmt.Errorf("%w: transfer did not complete in 200 s of virtual time (received %d of %d bytes / %d of %d messages)", errVerifIncomplete, got.Len(), sent.Len(), gotMsgs, total)
}

func TestVerifBounded(t *testing.T) {
	L := 5
	if os.Getenv("VERIF_BOUND") == "thorough" {
		L = 7
	}
	n := 1
	for i := 0; i < L; i++ {
		n *= 4
	}
	runs, completed := 0, 0
	for v := 0; v < n; v++ {
		fates := make([]int, L)
		x := v
		drops := 0
		for i := range fates {
			fates[i] = x % 4
			x /= 4
			if fates[i] == 1 {
				drops++
			}
		}
		for _, stream := range []bool{true, false} {
			err := verifStreamRun(fates, stream)
			if err != nil && (drops <= 1 || !errors.Is(err, errVerifIncomplete)) {
				t.Fatalf("BOUNDED-VIOLATION: fates %v stream=%v: %v", fates, stream, err)
			}
			if err == nil {
				completed++
			}
			runs++
		}
	}
	fmt.Printf("BOUNDED-COVERAGE: kcp stream prefix: %d fault-vector runs, %d ran to completion (vector length %d, stream and message mode)\n", runs, completed, L)
}
