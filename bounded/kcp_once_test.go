package kcp

// BOUNDED stand-in for the whole-history half of C18 (never counted as proved): two real KCP
// cores joined by an in-memory path that loses, duplicates and reorders nothing and delivers
// every datagram after a fixed one-way delay, under a virtual clock (refTime is moved, nothing
// sleeps). Enumerated: nodelay x interval x fast-resend threshold x congestion control on/off x
// send window x one-way delay x write pattern x start of the 32-bit clock (early, just before 2^32,
// just before 2^31), restricted to the property's premise (round trip
// including the peer's acknowledgement delay below the minimum RTO; the reader keeps up; receive
// window >= min(send window, 32)). Checked: every data segment (command 81) appears on the
// sender's wire exactly once, everything written is delivered, and the RTO the core reports
// stays within [minimum, 60 s] at every step.

import (
	"bytes"
	"encoding/binary"
	"fmt"
	"os"
	"testing"
	"time"
)

var errVerifContaminated = fmt.Errorf("real time leaked into the virtual clock")

type verifOncePath struct {
	delay int // ticks
	q     []verifOnceItem
	dst   **KCP
	push  map[uint32]int // data segments seen on this wire, by sequence number
}

type verifOnceItem struct {
	due int
	pkt []byte
}

func (p *verifOncePath) send(now int, buf []byte, size int) {
	pkt := append([]byte(nil), buf[:size]...)
	for d := pkt; len(d) >= 24; {
		l := int(binary.LittleEndian.Uint32(d[20:]))
		if d[4] == 81 {
			p.push[binary.LittleEndian.Uint32(d[12:])]++
		}
		if 24+l > len(d) {
			break
		}
		d = d[24+l:]
	}
	p.q = append(p.q, verifOnceItem{due: now + p.delay, pkt: pkt})
}

func (p *verifOncePath) deliver(now int) {
	for len(p.q) > 0 && p.q[0].due <= now {
		(*p.dst).Input(p.q[0].pkt, IKCP_PACKET_REGULAR, false)
		p.q = p.q[1:]
	}
}

func verifOnceRun(nodelay, interval, resend, nc, wnd, delay, pattern, mtu int, clock0 int64) error {
	saved := refTime
	defer func() { refTime = saved }()
	// the 32-bit millisecond clock starts at clock0 (the transfer crosses 2^32 / 2^31 for the late offsets)
	virt := clock0
	refTime = time.Now().Add(-time.Duration(virt) * time.Millisecond)
	var a, b *KCP
	now := 0
	ab := &verifOncePath{delay: delay, dst: &b, push: map[uint32]int{}}
	ba := &verifOncePath{delay: delay, dst: &a, push: map[uint32]int{}}
	a = NewKCP(7, func(buf []byte, size int) { ab.send(now, buf, size) })
	b = NewKCP(7, func(buf []byte, size int) { ba.send(now, buf, size) })
	for _, k := range []*KCP{a, b} {
		k.NoDelay(nodelay, interval, resend, nc)
		k.WndSize(wnd, max(wnd, 32))
		k.SetMtu(mtu)
	}
	if pattern == 0 && wnd > 32 {
		// asymmetric windows, still inside the premise: the receiver keeps the default 32/32 (its
		// receive window is the 32 segments a sender assumes before it is told)
		b.WndSize(32, 32)
	}
	minrto := uint32(100)
	if nodelay != 0 {
		minrto = 30
	}
	mss := int(a.mss)
	var sent, got bytes.Buffer
	const totalMsgs = 60
	next := 0
	seed := byte(3)
	buf := make([]byte, 1<<16)
	step := 10 // one tick = 10 ms
	for tick := 0; tick < 4000; tick++ {
		now = tick
		// write pattern: 0 = as fast as the window admits, 1 = one message every third tick,
		// 2 = bursts of five every twentieth tick
		burst := 0
		switch pattern {
		case 0:
			burst = 8
			if wnd > 32 {
				burst = totalMsgs // everything at once: the first flight is what the windows allow
			}
		case 1:
			if tick%3 == 0 {
				burst = 1
			}
		case 2:
			if tick%20 == 0 {
				burst = 5
			}
		}
		for ; burst > 0 && next < totalMsgs && a.WaitSnd() < wnd; burst-- {
			m := make([]byte, 1+(next*37)%(2*mss))
			for i := range m {
				seed = seed*13 + 1
				m[i] = seed
			}
			if a.Send(m) < 0 {
				return fmt.Errorf("Send refused a message of %d bytes", len(m))
			}
			sent.Write(m)
			next++
		}
		// the virtual clock is re-anchored at every tick; real time that passes inside a tick (the
		// process being descheduled on a busy machine) would leak into currentMs(): such a run is
		// discarded and repeated, never judged
		virt += int64(step)
		refTime = time.Now().Add(-time.Duration(virt) * time.Millisecond)
		ab.deliver(now)
		ba.deliver(now)
		if (tick*step)%interval == 0 {
			a.Update()
			b.Update()
		}
		for {
			n := b.Recv(buf)
			if n <= 0 {
				break
			}
			got.Write(buf[:n])
		}
		if d := int32(currentMs() - uint32(virt)); d > 1 || d < 0 {
			return errVerifContaminated
		}
		for _, k := range []*KCP{a, b} {
			if k.rx_rto < minrto || k.rx_rto > 60000 {
				return fmt.Errorf("tick %d: reported RTO %d outside [%d, 60000]", tick, k.rx_rto, minrto)
			}
		}
		if next == totalMsgs && got.Len() == sent.Len() && a.WaitSnd() == 0 {
			break
		}
	}
	if !bytes.Equal(got.Bytes(), sent.Bytes()) {
		return fmt.Errorf("delivered %d of %d bytes (or different bytes) on a perfect path", got.Len(), sent.Len())
	}
	for sn, c := range ab.push {
		if c != 1 {
			return fmt.Errorf("data segment sn=%d was transmitted %d times on a path that loses, duplicates and reorders nothing", sn, c)
		}
	}
	if len(ab.push) == 0 {
		return fmt.Errorf("no data segment seen on the wire")
	}
	return nil
}

func TestVerifBounded(t *testing.T) {
	thorough := os.Getenv("VERIF_BOUND") == "thorough"
	wnds := []int{2, 4, 16, 32, 128}
	mtus := []int{300}
	if thorough {
		wnds = []int{1, 2, 3, 4, 8, 16, 32, 33, 64, 128, 256}
		mtus = []int{100, 300, 1400}
	}
	runs, discarded, unjudged := 0, 0, 0
	for _, nodelay := range []int{0, 1} {
		for _, interval := range []int{10, 20, 30, 40} {
			for _, resend := range []int{0, 1, 2} {
				for _, nc := range []int{0, 1} {
					for _, wnd := range wnds {
						for delay := 0; delay <= 3; delay++ {
							minrto := 100
							if nodelay != 0 {
								minrto = 30
							}
							// premise: round trip including the peer's acknowledgement delay below the minimum RTO
							// (one-way delay twice, plus up to one flush interval at each end)
							if 2*delay*10+2*interval >= minrto {
								continue
							}
							for pattern := 0; pattern < 3; pattern++ {
								for _, mtu := range mtus {
									for _, clock0 := range []int64{1000, 1<<32 - 150, 1<<31 - 150} {
										runs++
										err := verifOnceRun(nodelay, interval, resend, nc, wnd, delay, pattern, mtu, clock0)
										for try := 0; err == errVerifContaminated && try < 200; try++ {
											discarded++
											err = verifOnceRun(nodelay, interval, resend, nc, wnd, delay, pattern, mtu, clock0)
										}
										if err == errVerifContaminated {
											unjudged++
											continue
										}
										if err != nil {
											t.Fatalf("BOUNDED-VIOLATION: nodelay=%d interval=%d resend=%d nc=%d wnd=%d one-way-delay=%dms pattern=%d mtu=%d clock-start=%d: %v", nodelay, interval, resend, nc, wnd, delay*10, pattern, mtu, clock0, err)
										}
									}
								}
							}
						}
					}
				}
			}
		}
	}
	fmt.Printf("BOUNDED-COVERAGE: kcp exactly-once: %d runs (nodelay x interval x resend x nc x window x delay x write pattern x clock start {1 s, just before 2^32, just before 2^31} within the premise), 60 messages each; %d runs discarded and repeated because real time leaked into the virtual clock, %d configurations left unjudged for that reason\n", runs, discarded, unjudged)
}
