package kcp

// BOUNDED stand-in for the convergence half of C16 (never counted as proved): for every pair of
// (sender d/p, receiver d/p) in the tier's range and every starting position of the sender inside
// a group, the real decoder is fed an uninterrupted run of 258+2(d+p) genuine packets of the
// real encoder and must then have adopted the sender's ratio, not be suspended, and recover a
// lost data packet of the next group byte for byte.
// Each run for a sender that has just started (base 0) and one that has been running for
// 1000003 groups.
// Bounds: quick d,p in 1..3 (both ends, 81 pairs x starts); thorough d in 1..6, p in 1..4 and
// the large ratios (10,3) (20,5) (100,28) (200,55) against (10,3),(1,1),(3,2).

import (
	"bytes"
	"encoding/binary"
	"fmt"
	"os"
	"testing"
)

func verifConverge(t *testing.T, sd, sp, rd, rp, start int, base uint32) {
	enc := newFECEncoder(sd, sp, 0)
	for i := 0; i < sd; i++ { // warm-up group
		enc.encode(make([]byte, fecHeaderSizePlus2+1), 1<<30)
	}
	enc.next = base * uint32(sd+sp) // the sender has been running for 'base' groups
	dec := newFECDecoder(rd, rp)
	seed := byte(3)
	next := func() [][]byte { // one data packet, followed by the parity packets it completes
		b := make([]byte, fecHeaderSizePlus2+20)
		for k := fecHeaderSizePlus2; k < len(b); k++ {
			seed = seed*29 + 11
			b[k] = seed
		}
		ps := enc.encode(b, 1<<30)
		out := [][]byte{append([]byte(nil), b...)}
		for _, q := range ps {
			out = append(out, append([]byte(nil), q...))
		}
		return out
	}
	// sender has been running: skip 'start' packets
	var stream [][]byte
	for len(stream) < start {
		stream = append(stream, next()...)
	}
	stream = stream[start:]
	limit := 258 + 2*(sd+sp)
	fed := 0
	for fed < limit {
		if len(stream) == 0 {
			stream = next()
		}
		dec.decode(fecPacket(stream[0]))
		stream = stream[1:]
		fed++
	}
	if dec.dataShards != sd || dec.parityShards != sp || dec.shouldTune {
		t.Fatalf("BOUNDED-VIOLATION: sender %d/%d receiver %d/%d start %d base %d: after %d uninterrupted packets the decoder is at %d/%d shouldTune=%v", sd, sp, rd, rp, start, base, limit, dec.dataShards, dec.parityShards, dec.shouldTune)
	}
	// finish the current group, then lose the first data packet of the next one
	for enc.shardCount != 0 || len(stream) > 0 {
		if len(stream) == 0 {
			stream = next()
		}
		dec.decode(fecPacket(stream[0]))
		stream = stream[1:]
	}
	var lost []byte
	var rec [][]byte
	for i := 0; i < sd; i++ {
		ps := next()
		if i == 0 {
			lost = ps[0]
			ps = ps[1:]
		}
		for _, q := range ps {
			rec = append(rec, dec.decode(fecPacket(q))...)
		}
	}
	want := lost[fecHeaderSize:]
	ok := false
	for _, r := range rec {
		if len(r) >= 2 {
			sz := int(binary.LittleEndian.Uint16(r))
			if sz == len(want) && sz <= len(r) && bytes.Equal(r[:sz], want) {
				ok = true
			}
		}
	}
	if !ok {
		t.Fatalf("BOUNDED-VIOLATION: sender %d/%d receiver %d/%d start %d base %d: a lost data packet is not recovered after convergence", sd, sp, rd, rp, start, base)
	}
}

func TestVerifBounded(t *testing.T) {
	maxD, maxP := 3, 3
	var extra [][4]int
	if os.Getenv("VERIF_BOUND") == "thorough" {
		maxD, maxP = 6, 4
		for _, s := range [][2]int{{10, 3}, {20, 5}, {100, 28}, {200, 55}} {
			for _, r := range [][2]int{{10, 3}, {1, 1}, {3, 2}} {
				extra = append(extra, [4]int{s[0], s[1], r[0], r[1]})
			}
		}
	}
	runs := 0
	for sd := 1; sd <= maxD; sd++ {
		for sp := 1; sp <= maxP; sp++ {
			for rd := 1; rd <= maxD; rd++ {
				for rp := 1; rp <= maxP; rp++ {
					for start := 0; start < sd+sp; start++ {
						for _, base := range []uint32{0, 1000003} {
							verifConverge(t, sd, sp, rd, rp, start, base)
							runs++
						}
					}
				}
			}
		}
	}
	for _, e := range extra {
		for _, start := range []int{0, 1, e[0] - 1, e[0], e[0] + e[1] - 1} {
			for _, base := range []uint32{0, 1000003} {
				verifConverge(t, e[0], e[1], e[2], e[3], start, base)
				runs++
			}
		}
	}
	fmt.Printf("BOUNDED-COVERAGE: fec convergence: %d (sender, receiver, start) runs\n", runs)
}
