package kcp

// BOUNDED stand-in for C07 (never counted as proved): the real fecEncoder and fecDecoder are run
// exhaustively for small groups: every (dataShards, parityShards) of the tier's list, three
// consecutive groups placed around the sequence-id wrap point, a vector of differing payload
// sizes, every subset of a group's packets that arrives and every arrival order of it (plus a
// duplicate), and checked against the property: nothing is emitted before dataShards distinct
// packets of the group have arrived; at that moment exactly the data packets not received so far
// are emitted, byte for byte with their exact length; nothing that is not an original data
// packet of the group is ever emitted. Phase 2: ONE long-lived decoder receives three
// consecutive groups in id order, for every combination of arrived subsets of the three groups
// (state carried from group to group: caches, shard sets, newest-group tracking).
// Bounds: quick (2,1) (2,2) (3,2); thorough adds (1,1) (1,2) (3,1) (4,1) (4,2) (5,1).

import (
	"bytes"
	"encoding/binary"
	"fmt"
	"os"
	"testing"
)

type verifGroup struct {
	pkts [][]byte // n packets as they appear on the wire (from the FEC header on)
	data [][]byte // the d original size-prefixed payloads (what a recovered shard must start with)
}

// verifHdrOff: bytes the session reserves in front of the FEC header for the cipher (0 without a
// cipher, 12 for AES-GCM's nonce, 20 for nonce + CRC): the encoder works at that offset
var verifHdrOff = 0

func verifMakeGroups(d, p int, startNext uint32, groups int) []verifGroup {
	off := verifHdrOff
	enc := newFECEncoder(d, p, off)
	for i := 0; i < d; i++ { // warm-up group (the very first group of an encoder has no "previous packet" time)
		enc.encode(make([]byte, off+fecHeaderSizePlus2+1), 1<<30)
	}
	enc.next = startNext
	var out []verifGroup
	seed := byte(1)
	for g := 0; g < groups; g++ {
		var grp verifGroup
		for i := 0; i < d; i++ {
			size := 1 + (g*13+i*29)%57
			b := make([]byte, off+fecHeaderSizePlus2+size)
			for k := off + fecHeaderSizePlus2; k < len(b); k++ {
				seed = seed*31 + 7
				b[k] = seed
			}
			ps := enc.encode(b, 1<<30)
			// independent reading of the header the encoder wrote (README: 16-bit size = payload + 2)
			if got := int(binary.LittleEndian.Uint16(b[off+fecHeaderSize:])); got != size+2 {
				panic(fmt.Sprintf("BOUNDED-VIOLATION: (%d,%d) header offset %d: size field of a data packet with %d payload bytes is %d, want %d", d, p, off, size, got, size+2))
			}
			if ty := binary.LittleEndian.Uint16(b[off+4:]); ty != typeData {
				panic(fmt.Sprintf("BOUNDED-VIOLATION: (%d,%d) header offset %d: data packet carries type %#x", d, p, off, ty))
			}
			b = b[off:]
			grp.pkts = append(grp.pkts, append([]byte(nil), b...))
			grp.data = append(grp.data, append([]byte(nil), b[fecHeaderSize:]...))
			if i == d-1 {
				if len(ps) != p {
					panic(fmt.Sprintf("encoder produced %d parity shards, want %d", len(ps), p))
				}
				for _, q := range ps {
					grp.pkts = append(grp.pkts, append([]byte(nil), q[off:]...))
				}
			}
		}
		out = append(out, grp)
	}
	return out
}

func verifPermute(a []int, f func([]int)) {
	var rec func(k int)
	rec = func(k int) {
		if k == len(a) {
			f(a)
			return
		}
		for i := k; i < len(a); i++ {
			a[k], a[i] = a[i], a[k]
			rec(k + 1)
			a[k], a[i] = a[i], a[k]
		}
	}
	rec(0)
}

func TestVerifBounded(t *testing.T) {
	cfgs := [][2]int{{2, 1}, {2, 2}, {3, 2}}
	if os.Getenv("VERIF_BOUND") == "thorough" {
		cfgs = append(cfgs, [2]int{1, 1}, [2]int{1, 2}, [2]int{3, 1}, [2]int{4, 1}, [2]int{4, 2}, [2]int{5, 1})
	}
	runs := 0
	for _, hdrOff := range []int{0, 12, 20} {
		verifHdrOff = hdrOff
		for _, c := range cfgs {
			if hdrOff != 0 && c[0]+c[1] > 4 {
				continue // the non-zero header offsets with the smallest configurations only
			}
			d, p := c[0], c[1]
			n := d + p
			paws := 0xffffffff / uint32(n) * uint32(n)
			// three groups: the last two before the wrap value and the first after it
			groups := verifMakeGroups(d, p, paws-2*uint32(n), 3)
			if binary.LittleEndian.Uint32(groups[2].pkts[0]) != 0 {
				t.Fatalf("BOUNDED-VIOLATION: (%d,%d): sequence id after the wrap value is %d, want 0", d, p, binary.LittleEndian.Uint32(groups[2].pkts[0]))
			}
			for gi, grp := range groups {
				for mask := 1; mask < 1<<n; mask++ {
					var idx []int
					for k := 0; k < n; k++ {
						if mask&(1<<k) != 0 {
							idx = append(idx, k)
						}
					}
					verifPermute(idx, func(order []int) {
						for dup := 0; dup < 2; dup++ {
							runs++
							dec := newFECDecoder(d, p)
							// a neighbouring group's packet first, so that the decoder holds another group too
							other := groups[(gi+1)%3]
							dec.decode(fecPacket(other.pkts[0]))
							got := map[int]bool{}
							emitted := false
							feed := append([]int(nil), order...)
							if dup == 1 {
								feed = append([]int{order[0]}, feed...) // the first packet arrives twice
							}
							for _, k := range feed {
								wasNew := !got[k]
								rec := dec.decode(fecPacket(grp.pkts[k]))
								got[k] = true
								// everything emitted is an original data packet of this group, exact length
								for _, r := range rec {
									if len(r) < 2 {
										t.Fatalf("BOUNDED-VIOLATION: (%d,%d) group %d order %v: emitted shard shorter than its size field", d, p, gi, feed)
									}
									sz := int(binary.LittleEndian.Uint16(r))
									okr := false
									for i := 0; i < d; i++ {
										if sz == len(grp.data[i]) && sz <= len(r) && bytes.Equal(r[:sz], grp.data[i]) {
											okr = true
										}
									}
									if !okr {
										t.Fatalf("BOUNDED-VIOLATION: (%d,%d) group %d order %v: emitted a packet that is not an original data packet of the group (size field %d)", d, p, gi, feed, sz)
									}
								}
								if len(got) < d && len(rec) > 0 {
									t.Fatalf("BOUNDED-VIOLATION: (%d,%d) group %d order %v: emitted before %d distinct packets had arrived", d, p, gi, feed, d)
								}
								if len(got) == d && wasNew && !emitted {
									emitted = true
									// exactly the data packets not received so far, each once
									missing := map[int]bool{}
									for i := 0; i < d; i++ {
										if !got[i] {
											missing[i] = true
										}
									}
									if len(rec) != len(missing) {
										t.Fatalf("BOUNDED-VIOLATION: (%d,%d) group %d order %v: %d packets reconstructed when %d distinct packets had arrived, want %d", d, p, gi, feed, len(rec), d, len(missing))
									}
									for i := range missing {
										found := false
										for _, r := range rec {
											sz := int(binary.LittleEndian.Uint16(r))
											if sz == len(grp.data[i]) && bytes.Equal(r[:sz], grp.data[i]) {
												found = true
											}
										}
										if !found {
											t.Fatalf("BOUNDED-VIOLATION: (%d,%d) group %d order %v: missing data packet %d was not reconstructed byte for byte", d, p, gi, feed, i)
										}
									}
								}
							}
						}
					})
				}
			}
		}
	}
	verifHdrOff = 0
	// phase 2: one decoder across consecutive groups
	runs2 := 0
	for _, c := range cfgs {
		d, p := c[0], c[1]
		n := d + p
		if n > 5 {
			continue
		}
		paws := 0xffffffff / uint32(n) * uint32(n)
		groups := verifMakeGroups(d, p, paws-2*uint32(n), 3)
		for m0 := 0; m0 < 1<<n; m0++ {
			for m1 := 0; m1 < 1<<n; m1++ {
				for m2 := 0; m2 < 1<<n; m2++ {
					runs2++
					dec := newFECDecoder(d, p)
					for gi, mask := range []int{m0, m1, m2} {
						grp := groups[gi]
						got := map[int]bool{}
						var rec [][]byte
						for k := 0; k < n; k++ {
							if mask&(1<<k) == 0 {
								continue
							}
							got[k] = true
							r := dec.decode(fecPacket(grp.pkts[k]))
							if len(r) > 0 && len(got) < d {
								t.Fatalf("BOUNDED-VIOLATION: (%d,%d) masks %b %b %b group %d: emitted before %d packets had arrived", d, p, m0, m1, m2, gi, d)
							}
							rec = append(rec, r...)
						}
						// everything emitted is an original data packet of this group (a late parity
						// packet may make the decoder emit one again: harmless duplicates) ...
						for _, r := range rec {
							okr := false
							if len(r) >= 2 {
								sz := int(binary.LittleEndian.Uint16(r))
								for i := 0; i < d; i++ {
									if sz == len(grp.data[i]) && sz <= len(r) && bytes.Equal(r[:sz], grp.data[i]) {
										okr = true
									}
								}
							}
							if !okr {
								t.Fatalf("BOUNDED-VIOLATION: (%d,%d) one decoder, arrived masks %b %b %b: group %d: emitted a packet that is not an original data packet of the group", d, p, m0, m1, m2, gi)
							}
						}
						// ... and every missing data packet is among them once dataShards arrived
						if len(got) >= d {
							for i := 0; i < d; i++ {
								if got[i] {
									continue
								}
								found := false
								for _, r := range rec {
									sz := int(binary.LittleEndian.Uint16(r))
									if sz == len(grp.data[i]) && sz <= len(r) && bytes.Equal(r[:sz], grp.data[i]) {
										found = true
									}
								}
								if !found {
									t.Fatalf("BOUNDED-VIOLATION: (%d,%d) one decoder, arrived masks %b %b %b: group %d: missing data packet %d was not reconstructed byte for byte", d, p, m0, m1, m2, gi, i)
								}
							}
						}
					}
				}
			}
		}
	}
	// phase 3: the sender skips the parity of a group (property: "parity being skipped by the sender
	// never harms delivery"), at the last group before the wrap value and two groups earlier; the
	// group that follows must still recover any single lost data packet from any one parity packet
	runs3 := 0
	for _, c := range cfgs {
		d, p := c[0], c[1]
		n := d + p
		paws := 0xffffffff / uint32(n) * uint32(n)
		for _, start := range []uint32{paws - uint32(n), paws - 3*uint32(n), 0} {
			for lost := 0; lost < d; lost++ {
				for par := 0; par < p; par++ {
					runs3++
					enc := newFECEncoder(d, p, 0)
					dec := newFECDecoder(d, p)
					enc.next = start
					mk := func(g, i int) []byte {
						b := make([]byte, fecHeaderSizePlus2+5+(g*7+i*11)%23)
						for k := fecHeaderSizePlus2; k < len(b); k++ {
							b[k] = byte(k*3 + g*17 + i)
						}
						return b
					}
					for i := 0; i < d; i++ { // group A: rto 0 => parity skipped
						b := mk(0, i)
						if ps := enc.encode(b, 0); len(ps) != 0 {
							t.Fatalf("BOUNDED-VIOLATION: (%d,%d): parity expected to be skipped for rto 0", d, p)
						}
						if r := dec.decode(fecPacket(b)); len(r) != 0 {
							t.Fatalf("BOUNDED-VIOLATION: (%d,%d) start %d: decoder emitted %d packets for a completely received group", d, p, start, len(r))
						}
					}
					var data, parity [][]byte
					for i := 0; i < d; i++ { // group B: parity generated
						b := mk(1, i)
						ps := enc.encode(b, 1<<30)
						data = append(data, append([]byte(nil), b...))
						for _, q := range ps {
							parity = append(parity, append([]byte(nil), q...))
						}
					}
					if len(parity) != p {
						t.Fatalf("BOUNDED-VIOLATION: (%d,%d) start %d: %d parity shards after a skipped group, want %d", d, p, start, len(parity), p)
					}
					var rec [][]byte
					for i := 0; i < d; i++ {
						if i != lost {
							rec = append(rec, dec.decode(fecPacket(data[i]))...)
						}
					}
					rec = append(rec, dec.decode(fecPacket(parity[par]))...)
					want := data[lost][fecHeaderSize:]
					found := false
					for _, r := range rec {
						if len(r) >= 2 {
							if sz := int(binary.LittleEndian.Uint16(r)); sz == len(want) && sz <= len(r) && bytes.Equal(r[:sz], want) {
								found = true
							}
						}
					}
					if !found {
						t.Fatalf("BOUNDED-VIOLATION: (%d,%d) group after a skipped-parity group starting at id %d (wrap value %d): lost data packet %d was not reconstructed from the other data packets and parity %d", d, p, start, paws, lost, par)
					}
				}
			}
		}
	}
	fmt.Printf("BOUNDED-COVERAGE: fec k-of-n: %d configurations, %d fresh-decoder runs (all subsets x orders; encoder at header offsets 0, 12, 20), %d long-lived-decoder runs (3 consecutive groups, all subset combinations), %d skipped-parity runs (before the wrap value and elsewhere)\n", len(cfgs), runs, runs2, runs3)
}
