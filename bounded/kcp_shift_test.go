package kcp

// BOUNDED stand-in for the whole-history statement of C12 (never counted as proved): two real KCP
// cores joined by an in-memory path with a fixed one-way delay and a deterministic fault pattern
// (drops and duplicates by datagram number), under a virtual clock (refTime is re-anchored at
// every tick; a run into which real time leaked is discarded and repeated). The same scenario is
// run unshifted (sequence numbers from 0, clock from 1 s) and with the starting sequence numbers
// and the starting clock shifted by constants that put the 2^32 and 2^31 boundaries before, inside
// and after the transfer. Compared: the delivered bytes, every datagram of both directions with
// its tick and every header field (sn, una and ts shifted back by the constants), and the RTT
// estimator state (srtt, rttvar, rto) of both ends at the end.

import (
	"bytes"
	"encoding/binary"
	"fmt"
	"hash/crc32"
	"os"
	"strings"
	"testing"
	"time"
)

var errVerifShiftContaminated = fmt.Errorf("real time leaked into the virtual clock")

type verifShiftPath struct {
	delay    int
	dropMod  int
	dropAt   int
	dupMod   int
	n        int
	q        []verifShiftItem
	dst      **KCP
	name     string
	seq0     uint32
	clock0   uint32
	trace    *strings.Builder
	traceOff bool
}

type verifShiftItem struct {
	due int
	pkt []byte
}

func (p *verifShiftPath) send(now int, buf []byte, size int) {
	pkt := append([]byte(nil), buf[:size]...)
	fmt.Fprintf(p.trace, "%s t=%d len=%d:", p.name, now, size)
	for d := pkt; len(d) >= 24; {
		l := int(binary.LittleEndian.Uint32(d[20:]))
		if 24+l > len(d) {
			fmt.Fprintf(p.trace, " [truncated]")
			break
		}
		fmt.Fprintf(p.trace, " [cmd=%d frg=%d wnd=%d ts=%d sn=%d una=%d len=%d crc=%08x]", d[4], d[5], binary.LittleEndian.Uint16(d[6:]),
			int32(binary.LittleEndian.Uint32(d[8:])-p.clock0), int32(binary.LittleEndian.Uint32(d[12:])-p.seq0), int32(binary.LittleEndian.Uint32(d[16:])-p.seq0), l, crc32.ChecksumIEEE(d[24:24+l]))
		d = d[24+l:]
	}
	p.trace.WriteString("\n")
	p.n++
	if p.dropMod > 0 && p.n%p.dropMod == p.dropAt {
		return
	}
	p.q = append(p.q, verifShiftItem{due: now + p.delay, pkt: pkt})
	if p.dupMod > 0 && p.n%p.dupMod == 1 {
		p.q = append(p.q, verifShiftItem{due: now + p.delay + 1, pkt: append([]byte(nil), pkt...)})
	}
}

func (p *verifShiftPath) deliver(now int) {
	var keep []verifShiftItem
	for _, it := range p.q {
		if it.due <= now {
			(*p.dst).Input(it.pkt, IKCP_PACKET_REGULAR, false)
		} else {
			keep = append(keep, it)
		}
	}
	p.q = keep
}

// one scenario: returns the normalised trace (datagrams, delivered data, estimator state)
func verifShiftRun(seq0, clock0 uint32, nodelay, resend, nc int) (string, error) {
	saved := refTime
	defer func() { refTime = saved }()
	virt := int64(clock0)
	refTime = time.Now().Add(-time.Duration(virt) * time.Millisecond)
	var tr strings.Builder
	var a, b *KCP
	now := 0
	ab := &verifShiftPath{delay: 2, dropMod: 7, dropAt: 3, dupMod: 11, dst: &b, name: "a>b", seq0: seq0, clock0: clock0, trace: &tr}
	ba := &verifShiftPath{delay: 2, dropMod: 5, dropAt: 2, dupMod: 0, dst: &a, name: "b>a", seq0: seq0, clock0: clock0, trace: &tr}
	a = NewKCP(7, func(buf []byte, size int) { ab.send(now, buf, size) })
	b = NewKCP(7, func(buf []byte, size int) { ba.send(now, buf, size) })
	for _, k := range []*KCP{a, b} {
		k.NoDelay(nodelay, 10, resend, nc)
		k.WndSize(16, 32)
		k.SetMtu(200)
		k.snd_una, k.snd_nxt, k.rcv_nxt = seq0, seq0, seq0
	}
	var sent, got, gotA bytes.Buffer
	const total = 70
	next := 0
	seed := byte(9)
	buf := make([]byte, 1<<16)
	for tick := 0; tick < 3000; tick++ {
		now = tick
		for ; next < total && a.WaitSnd() < 16; next++ {
			m := make([]byte, 1+(next*53)%300)
			for i := range m {
				seed = seed*13 + 1
				m[i] = seed
			}
			if a.Send(m) < 0 {
				return "", fmt.Errorf("Send refused")
			}
			sent.Write(m)
			if next%9 == 4 { // a little traffic the other way, so that both ends send data and ACKs
				b.Send([]byte{byte(next), 1, 2, 3})
			}
		}
		virt += 10
		refTime = time.Now().Add(-time.Duration(virt) * time.Millisecond)
		ab.deliver(now)
		ba.deliver(now)
		a.Update()
		b.Update()
		for {
			n := b.Recv(buf)
			if n <= 0 {
				break
			}
			got.Write(buf[:n])
		}
		for {
			n := a.Recv(buf)
			if n <= 0 {
				break
			}
			gotA.Write(buf[:n])
		}
		if d := int32(currentMs() - uint32(virt)); d > 1 || d < 0 {
			return "", errVerifShiftContaminated
		}
		if next == total && got.Len() == sent.Len() && a.WaitSnd() == 0 && b.WaitSnd() == 0 {
			break
		}
	}
	if !bytes.Equal(got.Bytes(), sent.Bytes()) {
		return "", fmt.Errorf("delivered %d of %d bytes (or different bytes)", got.Len(), sent.Len())
	}
	fmt.Fprintf(&tr, "delivered a>b %08x (%d bytes), b>a %08x (%d bytes)\n", crc32.ChecksumIEEE(got.Bytes()), got.Len(), crc32.ChecksumIEEE(gotA.Bytes()), gotA.Len())
	for i, k := range []*KCP{a, b} {
		fmt.Fprintf(&tr, "end %d: srtt=%d rttvar=%d rto=%d snd_una=%d snd_nxt=%d rcv_nxt=%d cwnd=%d\n", i, k.rx_srtt, k.rx_rttvar, k.rx_rto,
			int32(k.snd_una-seq0), int32(k.snd_nxt-seq0), int32(k.rcv_nxt-seq0), k.cwnd)
	}
	return tr.String(), nil
}

func verifShiftRetry(seq0, clock0 uint32, nodelay, resend, nc int, discarded *int) (string, error) {
	for try := 0; ; try++ {
		tr, err := verifShiftRun(seq0, clock0, nodelay, resend, nc)
		if err == errVerifShiftContaminated && try < 200 {
			*discarded++
			continue
		}
		return tr, err
	}
}

func verifFirstDiff(a, b string) string {
	la, lb := strings.Split(a, "\n"), strings.Split(b, "\n")
	for i := 0; i < len(la) && i < len(lb); i++ {
		if la[i] != lb[i] {
			return fmt.Sprintf("first difference at trace line %d:\n  unshifted: %s\n  shifted:   %s", i+1, la[i], lb[i])
		}
	}
	return fmt.Sprintf("traces have %d and %d lines", len(la), len(lb))
}

func TestVerifBounded(t *testing.T) {
	thorough := os.Getenv("VERIF_BOUND") == "thorough"
	seqs := []uint32{1<<32 - 5, 1<<32 - 60, 1<<31 - 5, 1<<31 - 60}
	clocks := []uint32{1<<32 - 50, 1<<32 - 1500, 1<<31 - 50, 1<<31 - 1500, 1<<31 + 1000, 3 << 30}
	if thorough {
		seqs = append(seqs, 1<<32-1, 1<<32-20, 1<<31-1, 1<<31-20, 1<<31, 12345678)
		clocks = append(clocks, 1<<32-10, 1<<32-300, 1<<32-5000, 1<<31-10, 1<<31-300, 1<<31-5000, 1<<31, 1<<32-1)
	}
	runs, discarded, unjudged := 0, 0, 0
	for _, nodelay := range []int{0, 1} {
		for _, resend := range []int{0, 2} {
			for _, nc := range []int{0, 1} {
				ref, err := verifShiftRetry(0, 1000, nodelay, resend, nc, &discarded)
				if err == errVerifShiftContaminated {
					unjudged++
					continue
				}
				if err != nil {
					t.Fatalf("BOUNDED-VIOLATION: unshifted run (nodelay=%d resend=%d nc=%d) failed, not a wrap-around effect: %v", nodelay, resend, nc, err)
				}
				type shift struct{ seq, clock uint32 }
				var shifts []shift
				for _, s := range seqs {
					shifts = append(shifts, shift{s, 1000})
				}
				for _, c := range clocks {
					shifts = append(shifts, shift{0, c})
				}
				for i, s := range seqs { // both shifted
					shifts = append(shifts, shift{s, clocks[i%len(clocks)]})
				}
				for _, sh := range shifts {
					runs++
					got, err := verifShiftRetry(sh.seq, sh.clock, nodelay, resend, nc, &discarded)
					if err == errVerifShiftContaminated {
						unjudged++
						continue
					}
					if err != nil {
						t.Fatalf("BOUNDED-VIOLATION: nodelay=%d resend=%d nc=%d, sequence numbers from %d, clock from %d: %v (the unshifted run completes)", nodelay, resend, nc, sh.seq, sh.clock, err)
					}
					if got != ref {
						t.Fatalf("BOUNDED-VIOLATION: nodelay=%d resend=%d nc=%d, sequence numbers from %d, clock from %d: behaviour differs from the unshifted run; %s", nodelay, resend, nc, sh.seq, sh.clock, verifFirstDiff(ref, got))
					}
				}
			}
		}
	}
	fmt.Printf("BOUNDED-COVERAGE: kcp shift invariance: %d shifted runs compared datagram by datagram with their unshifted run (8 configurations x sequence/clock starts around 2^32 and 2^31, 70 messages each way with drops and duplicates); %d runs discarded and repeated because real time leaked into the virtual clock, %d left unjudged\n", runs, discarded, unjudged)
}
