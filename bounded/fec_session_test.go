package kcp

// BOUNDED stand-in for the last clause of C07's mechanism - the recovered packet reaches KCP
// (never counted as proved): a raw sender core and the real fecEncoder produce one group of
// datagrams carrying KCP messages of differing sizes; one data datagram is lost (every position,
// with the lost one being the longest, tied for longest, and shorter than the longest); the rest
// is fed to a real UDPSession through kcpInput. The sender never retransmits, so every message
// can only arrive through FEC recovery: the session's core must deliver all of them, intact.
// Bounds: (d,p) in (2,1) (3,2) (4,1); thorough adds (5,2) (10,3) and two lost datagrams where p >= 2.

import (
	"bytes"
	"fmt"
	"net"
	"os"
	"testing"
)

type verifNullConn struct{ net.PacketConn }

func (verifNullConn) WriteTo(p []byte, _ net.Addr) (int, error) { return len(p), nil }

func verifFECSession(d, p int, sizes []int, lost map[int]bool) error {
	pc, err := net.ListenPacket("udp", "127.0.0.1:0")
	if err != nil {
		return err
	}
	defer pc.Close()
	s, err := NewConn4(77, &net.UDPAddr{IP: net.IPv4(127, 0, 0, 1), Port: 9}, nil, d, p, true, verifNullConn{pc})
	if err != nil {
		return err
	}
	defer s.Close()
	enc := newFECEncoder(d, p, 0)
	for i := 0; i < d; i++ { // warm-up group
		enc.encode(make([]byte, fecHeaderSizePlus2+IKCP_OVERHEAD+1), 1<<30)
	}
	var wire [][]byte
	snd := NewKCP(77, func(buf []byte, size int) {
		b := make([]byte, fecHeaderSizePlus2+size)
		copy(b[fecHeaderSizePlus2:], buf[:size])
		ps := enc.encode(b, 1<<30)
		wire = append(wire, append([]byte(nil), b...))
		for _, q := range ps {
			wire = append(wire, append([]byte(nil), q...))
		}
	})
	snd.NoDelay(1, 10, 2, 1)
	snd.WndSize(128, 128)
	var msgs [][]byte
	for i := 0; i < d; i++ {
		m := bytes.Repeat([]byte{byte('a' + i)}, sizes[i%len(sizes)])
		msgs = append(msgs, m)
		snd.Send(m)
		snd.flush(IKCP_FLUSH_FULL) // one datagram per message
	}
	if len(wire) != d+p {
		return fmt.Errorf("harness: %d datagrams on the wire, want %d", len(wire), d+p)
	}
	for k, w := range wire {
		if !lost[k] {
			s.kcpInput(append([]byte(nil), w...))
		}
	}
	buf := make([]byte, 4096)
	for i, m := range msgs {
		s.mu.Lock()
		n := s.kcp.PeekSize()
		if n > 0 {
			n = s.kcp.Recv(buf)
		}
		s.mu.Unlock()
		if n <= 0 || !bytes.Equal(buf[:n], m) {
			return fmt.Errorf("message %d (%d bytes) did not reach the reader intact through FEC recovery (got %d)", i, len(m), n)
		}
	}
	return nil
}

func TestVerifBounded(t *testing.T) {
	cfgs := [][2]int{{2, 1}, {3, 2}, {4, 1}}
	thorough := os.Getenv("VERIF_BOUND") == "thorough"
	if thorough {
		cfgs = append(cfgs, [2]int{5, 2}, [2]int{10, 3})
	}
	patterns := [][]int{{40, 40, 40, 40, 40}, {10, 90, 30, 90, 50}, {90, 10, 20, 30, 40}, {10, 20, 30, 40, 91}}
	runs := 0
	for _, c := range cfgs {
		d, p := c[0], c[1]
		for _, sizes := range patterns {
			for l1 := 0; l1 < d; l1++ {
				lostSets := []map[int]bool{{l1: true}}
				if thorough && p >= 2 {
					for l2 := l1 + 1; l2 < d+p; l2++ {
						lostSets = append(lostSets, map[int]bool{l1: true, l2: true})
					}
				}
				for _, lost := range lostSets {
					runs++
					if err := verifFECSession(d, p, sizes, lost); err != nil {
						t.Fatalf("BOUNDED-VIOLATION: fec %d/%d sizes %v lost %v: %v", d, p, sizes[:d%len(sizes)+1], lost, err)
					}
				}
			}
		}
	}
	fmt.Printf("BOUNDED-COVERAGE: fec recovery into the session: %d runs (configurations x size patterns x lost datagrams)\n", runs)
}
