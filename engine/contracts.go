package main

// Parser for the comment-only contracts file (/repo/verif_contracts.go, //go:build verif).

import (
	"fmt"
	"os"
	"regexp"
	"strconv"
	"strings"
)

type Clause struct {
	Kind string // requires ensures invariant
	Tags []string
	Expr *CExpr
	Src  string
	Line int
	Loop int
	Name string // optional label
}

type FuncContract struct {
	Key         string
	Requires    []*Clause
	Ensures     []*Clause
	Modifies    []*CExpr
	HasModifies bool
	LoopInv     map[int][]*Clause
	LoopMod     map[int][]*CExpr
	CallSites   map[string][]*Clause // assertions in the caller's frame before calls of a callee
	Sections    map[string][]*Clause // two-state assertions over each critical section of a mutex (old = state at Lock)
	Flags       map[string]string
	Line        int
	used        bool
}

type SpecDef struct {
	Key      string
	RecvName string // receiver variable name ("" for plain functions)
	RecvType string
	Params   []CVarDecl
	Body     *CExpr
	IsPred   bool
	Line     int
}

type Lemma struct {
	Name string
	Expr *CExpr
	Src  string
	Line int
}

type GhostField struct {
	Struct string
	Field  string
	Type   string
}

type Contracts struct {
	Funcs        map[string]*FuncContract
	Specs        map[string]*SpecDef
	Lemmas       []*Lemma
	Callbacks    map[string]*FuncContract
	Ghosts       []GhostField
	Guards       map[string][]string // mutex field -> guarded fields
	Confined     []ConfinedDecl
	SharedTypes  []string
	OwnedTypes   []string
	gspec        *GuardSpec
	Kinds        *KindSpec
	Atomic       map[string]bool
	SoleConsumer map[string]string // Struct.field channel -> the one function that receives from it
	SoleProducer map[string]string // Struct.field channel -> the one function that sends on it
	CloseOnly    map[string]bool   // Struct.field channels on which nothing is ever sent: a receive succeeds only once the channel is closed
	Immutable    map[string]bool
	Consts       map[string]*CExpr
	Monitors     map[string]*Clause // "Struct.mutexField" -> invariant over self
	Ctors        map[string]bool    // functions allowed to assign immutable fields
	Axioms       []*Lemma
	File         string
}

var (
	reFuncHdr = regexp.MustCompile(`^func\s+(\S+)\s*(.*)$`)
	reSpecHdr = regexp.MustCompile(`^(pred|spec)\s+(?:\(\s*(\w+)\s+\*?([\w\[\]]+)\s*\)\s*)?(\w+)\s*\(([^)]*)\)\s*([\w\[\]\*\.]*)\s*=\s*(.*)$`)
	reLoop    = regexp.MustCompile(`^loop\s+(\d+)\s+(invariant|modifies)\s*(.*)$`)
	reTag     = regexp.MustCompile(`^@(\w+)\s*`)
	reLabel   = regexp.MustCompile(`^\[(\w[\w\-\.]*)\]\s*`)
)

var clauseKeywords = map[string]bool{
	"requires": true, "ensures": true, "modifies": true, "loop": true, "inline": true, "pure": true,
	"trusted": true, "panics": true, "iterator": true, "itercount": true, "iterelem": true, "allocates": true, "counted": true, "callsite": true, "section": true, "nomodcheck": true, "unroll": true, "ghostret": true, "opaque": true,
}

type ConfinedDecl struct {
	Funcs  []string
	Fields []string
}

var topKeywords = map[string]bool{
	"confined": true, "shared": true, "owned": true, "kind": true, "kindfunc": true, "kindok": true,
	"func": true, "pred": true, "spec": true, "lemma": true, "callback": true, "ghost": true,
	"guard": true, "atomic": true, "closeonly": true, "soleconsumer": true, "soleproducer": true, "immutable": true, "const": true, "end": true, "axiom": true,
	"monitor": true, "constructor": true,
}

func newContracts() *Contracts {
	return &Contracts{Funcs: map[string]*FuncContract{}, Specs: map[string]*SpecDef{}, Callbacks: map[string]*FuncContract{},
		Guards: map[string][]string{}, Atomic: map[string]bool{}, CloseOnly: map[string]bool{}, SoleConsumer: map[string]string{}, SoleProducer: map[string]string{}, Immutable: map[string]bool{}, Consts: map[string]*CExpr{},
		Monitors: map[string]*Clause{}, Ctors: map[string]bool{}}
}

func loadContracts(c *Contracts, path string) error {
	_, err := loadContractsInto(c, path)
	return err
}

func loadContractsInto(c *Contracts, path string) (*Contracts, error) {
	data, err := os.ReadFile(path)
	if err != nil {
		return nil, err
	}
	c.File = path
	// gather logical lines
	type ll struct {
		text string
		line int
	}
	var lines []ll
	for i, raw := range strings.Split(string(data), "\n") {
		s := strings.TrimSpace(raw)
		if !strings.HasPrefix(s, "//@") {
			continue
		}
		s = strings.TrimSpace(strings.TrimPrefix(s, "//@"))
		if s == "" || strings.HasPrefix(s, "#") {
			continue
		}
		// strip trailing comment after " ## "
		if k := strings.Index(s, " ## "); k >= 0 {
			s = strings.TrimSpace(s[:k])
		}
		first := s
		if k := strings.IndexAny(s, " \t"); k >= 0 {
			first = s[:k]
		}
		if clauseKeywords[first] || topKeywords[first] {
			lines = append(lines, ll{s, i + 1})
		} else if len(lines) > 0 {
			lines[len(lines)-1].text += " " + s
		} else {
			return nil, fmt.Errorf("%s:%d: continuation without a clause", path, i+1)
		}
	}
	var cur *FuncContract
	for _, l := range lines {
		s := l.text
		first := s
		rest := ""
		if k := strings.IndexAny(s, " \t"); k >= 0 {
			first, rest = s[:k], strings.TrimSpace(s[k+1:])
		}
		fail := func(f string, a ...any) error {
			return fmt.Errorf("%s:%d: %s", path, l.line, fmt.Sprintf(f, a...))
		}
		parse := func(src string) (*CExpr, error) {
			e, err := parseCExpr(src)
			if err != nil {
				return nil, fail("%v", err)
			}
			return e, nil
		}
		switch first {
		case "func", "callback":
			m := reFuncHdr.FindStringSubmatch("func " + rest)
			if m == nil {
				return nil, fail("bad func header")
			}
			cur = &FuncContract{Key: m[1], LoopInv: map[int][]*Clause{}, LoopMod: map[int][]*CExpr{}, CallSites: map[string][]*Clause{}, Sections: map[string][]*Clause{}, Flags: map[string]string{}, Line: l.line}
			if first == "func" {
				if c.Funcs[cur.Key] != nil {
					return nil, fail("duplicate contract for %s", cur.Key)
				}
				c.Funcs[cur.Key] = cur
			} else {
				c.Callbacks[cur.Key] = cur
			}
			for _, fl := range strings.Fields(m[2]) {
				cur.Flags[fl] = "1"
			}
		case "end":
			cur = nil
		case "pred", "spec":
			m := reSpecHdr.FindStringSubmatch(s)
			if m == nil {
				return nil, fail("bad %s header: %s", first, s)
			}
			body, err := parse(m[7])
			if err != nil {
				return nil, err
			}
			sd := &SpecDef{RecvName: m[2], RecvType: m[3], IsPred: first == "pred", Body: body, Line: l.line}
			if k := strings.Index(sd.RecvType, "["); k >= 0 {
				sd.RecvType = sd.RecvType[:k]
			}
			sd.Key = m[4]
			if sd.RecvType != "" {
				sd.Key = sd.RecvType + "." + m[4]
			}
			for _, p := range strings.Split(m[5], ",") {
				p = strings.TrimSpace(p)
				if p == "" {
					continue
				}
				f := strings.Fields(p)
				d := CVarDecl{Name: f[0]}
				if len(f) > 1 {
					d.Type = strings.Join(f[1:], " ")
				}
				sd.Params = append(sd.Params, d)
			}
			if c.Specs[sd.Key] != nil {
				return nil, fail("duplicate spec %s", sd.Key)
			}
			c.Specs[sd.Key] = sd
			cur = nil
		case "lemma":
			k := strings.Index(rest, ":")
			if k < 0 {
				return nil, fail("lemma needs name: expr")
			}
			e, err := parse(rest[k+1:])
			if err != nil {
				return nil, err
			}
			c.Lemmas = append(c.Lemmas, &Lemma{Name: strings.TrimSpace(rest[:k]), Expr: e, Src: strings.TrimSpace(rest[k+1:]), Line: l.line})
			cur = nil
		case "monitor":
			k := strings.IndexAny(rest, " \t")
			if k < 0 {
				return nil, fail("monitor Struct.mutex expr")
			}
			e, err := parse(rest[k+1:])
			if err != nil {
				return nil, err
			}
			c.Monitors[rest[:k]] = &Clause{Kind: "monitor", Expr: e, Src: strings.TrimSpace(rest[k+1:]), Line: l.line}
			cur = nil
		case "constructor":
			for _, f := range strings.Fields(rest) {
				c.Ctors[f] = true
			}
			cur = nil
		case "axiom":
			e, err := parse(rest)
			if err != nil {
				return nil, err
			}
			c.Axioms = append(c.Axioms, &Lemma{Expr: e, Src: rest, Line: l.line})
			cur = nil
		case "ghost":
			f := strings.Fields(rest)
			if len(f) < 2 || !strings.Contains(f[0], ".") {
				return nil, fail("ghost Struct.field type")
			}
			k := strings.Index(f[0], ".")
			c.Ghosts = append(c.Ghosts, GhostField{f[0][:k], f[0][k+1:], strings.Join(f[1:], " ")})
			cur = nil
		case "guard":
			k := strings.Index(rest, ":")
			if k < 0 {
				return nil, fail("guard mutex : fields")
			}
			mu := strings.TrimSpace(rest[:k])
			c.Guards[mu] = append(c.Guards[mu], strings.Fields(rest[k+1:])...)
			cur = nil
		case "atomic":
			for _, f := range strings.Fields(rest) {
				c.Atomic[f] = true
			}
			cur = nil
		case "closeonly":
			for _, f := range strings.Fields(rest) {
				c.CloseOnly[f] = true
			}
			cur = nil
		case "soleconsumer", "soleproducer":
			k := strings.Index(rest, ":")
			if k < 0 {
				return nil, fail(first + " Func : Struct.chanField ...")
			}
			for _, f := range strings.Fields(rest[k+1:]) {
				if first == "soleconsumer" {
					c.SoleConsumer[f] = strings.TrimSpace(rest[:k])
				} else {
					c.SoleProducer[f] = strings.TrimSpace(rest[:k])
				}
			}
			cur = nil
		case "confined":
			k := strings.Index(rest, ":")
			if k < 0 {
				return nil, fail("confined Func[,Func] : Struct.field ...")
			}
			c.Confined = append(c.Confined, ConfinedDecl{Funcs: strings.Split(strings.TrimSpace(rest[:k]), ","), Fields: strings.Fields(rest[k+1:])})
			cur = nil
		case "kind", "kindfunc", "kindok":
			if c.Kinds == nil {
				c.Kinds = &KindSpec{Field: map[string]kindT{}, Local: map[string]kindT{}, Result: map[string]kindT{}, Exempt: map[string]bool{}}
			}
			f := strings.Fields(rest)
			switch first {
			case "kindok":
				for _, n := range f {
					c.Kinds.Exempt[n] = true
				}
			case "kindfunc":
				if len(f) != 2 || parseKindName(f[1]) == kNone {
					return nil, fail("kindfunc <func> seq|clock")
				}
				c.Kinds.Result[f[0]] = parseKindName(f[1])
			default:
				if len(f) < 2 || parseKindName(f[0]) == kNone {
					return nil, fail("kind seq|clock <Struct.field | local:Func.var> ...")
				}
				for _, n := range f[1:] {
					if strings.HasPrefix(n, "local:") {
						c.Kinds.Local[strings.TrimPrefix(n, "local:")] = parseKindName(f[0])
					} else {
						c.Kinds.Field[n] = parseKindName(f[0])
					}
				}
			}
			cur = nil
		case "shared":
			c.SharedTypes = append(c.SharedTypes, strings.Fields(rest)...)
			cur = nil
		case "owned":
			c.OwnedTypes = append(c.OwnedTypes, strings.Fields(rest)...)
			cur = nil
		case "immutable":
			for _, f := range strings.Fields(rest) {
				c.Immutable[f] = true
			}
			cur = nil
		case "const":
			k := strings.Index(rest, "=")
			if k < 0 {
				return nil, fail("const name = expr")
			}
			e, err := parse(rest[k+1:])
			if err != nil {
				return nil, err
			}
			c.Consts[strings.TrimSpace(rest[:k])] = e
			cur = nil
		default:
			if cur == nil {
				return nil, fail("clause %q outside a func block", first)
			}
			switch first {
			case "requires", "ensures":
				cl := &Clause{Kind: first, Line: l.line}
				for {
					if m := reTag.FindStringSubmatch(rest); m != nil {
						cl.Tags = append(cl.Tags, m[1])
						rest = rest[len(m[0]):]
						continue
					}
					if m := reLabel.FindStringSubmatch(rest); m != nil {
						cl.Name = m[1]
						rest = rest[len(m[0]):]
						continue
					}
					break
				}
				e, err := parse(rest)
				if err != nil {
					return nil, err
				}
				cl.Expr, cl.Src = e, rest
				if first == "requires" {
					cur.Requires = append(cur.Requires, cl)
				} else {
					cur.Ensures = append(cur.Ensures, cl)
				}
			case "callsite":
				f := strings.Fields(rest)
				if len(f) < 3 || f[1] != "requires" {
					return nil, fail("callsite <Callee> requires <expr>")
				}
				callee := f[0]
				rest = strings.TrimSpace(strings.TrimPrefix(strings.TrimSpace(strings.TrimPrefix(rest, callee)), "requires"))
				cl := &Clause{Kind: "callsite", Line: l.line}
				for {
					if m := reTag.FindStringSubmatch(rest); m != nil {
						cl.Tags = append(cl.Tags, m[1])
						rest = rest[len(m[0]):]
						continue
					}
					if m := reLabel.FindStringSubmatch(rest); m != nil {
						cl.Name = m[1]
						rest = rest[len(m[0]):]
						continue
					}
					break
				}
				e, err := parse(rest)
				if err != nil {
					return nil, err
				}
				cl.Expr, cl.Src = e, rest
				cur.CallSites[callee] = append(cur.CallSites[callee], cl)
			case "section":
				f := strings.Fields(rest)
				if len(f) < 3 || f[1] != "ensures" {
					return nil, fail("section <Struct.mutex> ensures <expr>")
				}
				mu := f[0]
				rest = strings.TrimSpace(strings.TrimPrefix(strings.TrimSpace(strings.TrimPrefix(rest, mu)), "ensures"))
				cl := &Clause{Kind: "section", Line: l.line}
				for {
					if m := reTag.FindStringSubmatch(rest); m != nil {
						cl.Tags = append(cl.Tags, m[1])
						rest = rest[len(m[0]):]
						continue
					}
					if m := reLabel.FindStringSubmatch(rest); m != nil {
						cl.Name = m[1]
						rest = rest[len(m[0]):]
						continue
					}
					break
				}
				e, err := parse(rest)
				if err != nil {
					return nil, err
				}
				cl.Expr, cl.Src = e, rest
				cur.Sections[mu] = append(cur.Sections[mu], cl)
			case "modifies":
				cur.HasModifies = true
				ms, err := parseModList(rest, parse)
				if err != nil {
					return nil, err
				}
				cur.Modifies = append(cur.Modifies, ms...)
			case "loop":
				m := reLoop.FindStringSubmatch(s)
				if m == nil {
					return nil, fail("bad loop clause")
				}
				n, _ := strconv.Atoi(m[1])
				rest = m[3]
				if m[2] == "modifies" {
					ms, err := parseModList(rest, parse)
					if err != nil {
						return nil, err
					}
					cur.LoopMod[n] = append(cur.LoopMod[n], ms...)
					break
				}
				cl := &Clause{Kind: "invariant", Line: l.line, Loop: n}
				for {
					if m := reTag.FindStringSubmatch(rest); m != nil {
						cl.Tags = append(cl.Tags, m[1])
						rest = rest[len(m[0]):]
						continue
					}
					if m := reLabel.FindStringSubmatch(rest); m != nil {
						cl.Name = m[1]
						rest = rest[len(m[0]):]
						continue
					}
					break
				}
				e, err := parse(rest)
				if err != nil {
					return nil, err
				}
				cl.Expr, cl.Src = e, rest
				cur.LoopInv[n] = append(cur.LoopInv[n], cl)
			default:
				if rest == "" {
					rest = "1"
				}
				cur.Flags[first] = rest
			}
		}
	}
	return c, nil
}

func parseModList(rest string, parse func(string) (*CExpr, error)) ([]*CExpr, error) {
	var out []*CExpr
	if strings.TrimSpace(rest) == "nothing" || strings.TrimSpace(rest) == "" {
		return out, nil
	}
	depth := 0
	start := 0
	var parts []string
	for i, ch := range rest {
		switch ch {
		case '(', '[':
			depth++
		case ')', ']':
			depth--
		case ',':
			if depth == 0 {
				parts = append(parts, rest[start:i])
				start = i + 1
			}
		}
	}
	parts = append(parts, rest[start:])
	for _, p := range parts {
		p = strings.TrimSpace(p)
		p = strings.ReplaceAll(p, "[..]", "[:]")
		e, err := parse(p)
		if err != nil {
			return nil, err
		}
		out = append(out, e)
	}
	return out, nil
}
