package main

import (
	"encoding/json"
	"flag"
	"fmt"
	"os"
	"sort"
	"strings"
	"time"
)

func main() {
	if len(os.Args) < 2 {
		fmt.Fprintln(os.Stderr, "usage: kcpverif unit|check|list ...")
		os.Exit(2)
	}
	switch os.Args[1] {
	case "unit":
		cmdUnit(os.Args[2:])
	case "check":
		cmdCheck(os.Args[2:])
	case "list":
		cmdList(os.Args[2:])
	case "replay":
		cmdReplay(os.Args[2:])
	case "loopmap":
		env, err := loadEnv("/repo")
		if err != nil {
			fmt.Fprintln(os.Stderr, err)
			os.Exit(2)
		}
		b, _ := json.MarshalIndent(env.currentLoopMap(), "", " ")
		fmt.Println(string(b))
	case "pool":
		repo := "/repo"
		if len(os.Args) > 2 {
			repo = os.Args[2]
		}
		env, err := loadEnv(repo)
		if err != nil {
			fmt.Fprintln(os.Stderr, err)
			os.Exit(2)
		}
		u := runPoolDiscipline(env)
		bad := 0
		for _, o := range u.Obligs {
			st := "ok  "
			if o.Result != "unsat" {
				st = "FAIL"
				bad++
			}
			fmt.Printf("%s %s %s\n", st, o.Name, o.Pos)
		}
		fmt.Println("unsupported:", u.Unsupported)
		fmt.Printf("%d obligations, %d violated\n", len(u.Obligs), bad)
	case "kinds":
		repo := "/repo"
		if len(os.Args) > 2 {
			repo = os.Args[2]
		}
		env, err := loadEnv(repo)
		if err != nil {
			fmt.Fprintln(os.Stderr, err)
			os.Exit(2)
		}
		u := runKindDiscipline(env)
		bad := 0
		for _, o := range u.Obligs {
			st := "ok  "
			if o.Result != "unsat" {
				st = "FAIL"
				bad++
			}
			fmt.Printf("%s %s %s\n", st, o.Name, o.Pos)
		}
		fmt.Println("unsupported:", u.Unsupported)
		fmt.Printf("%d obligations, %d violated\n", len(u.Obligs), bad)
	case "cfbworker":
		fs := flag.NewFlagSet("cfbworker", flag.ExitOnError)
		repo := fs.String("repo", "/repo", "repository")
		tier := fs.String("tier", "quick", "tier")
		shard := fs.Int("shard", 0, "shard")
		of := fs.Int("of", 1, "number of shards")
		fs.Parse(os.Args[2:])
		env, err := loadEnv(*repo)
		if err != nil {
			fmt.Fprintln(os.Stderr, err)
			os.Exit(2)
		}
		cfg := &SolverCfg{QuickMs: 2000, FullMs: 4000, CacheDir: "", Workers: 2}
		res := runCFBShard(env, *tier, *shard, *of, cfg)
		b, _ := json.Marshal(res)
		fmt.Println(string(b))
	case "cfb":
		env, err := loadEnv("/repo")
		if err != nil {
			fmt.Fprintln(os.Stderr, err)
			os.Exit(2)
		}
		t0 := time.Now()
		var cs []cfbCase
		for _, a := range os.Args[2:] {
			var c cfbCase
			var ip int
			fmt.Sscanf(a, "%[^:]:%d:%d:%d", &c.fn, &c.bs, &c.n, &ip)
			_ = ip
			cs = append(cs, c)
		}
		for _, spec := range os.Args[2:] {
			var fn string
			var bs, n, ip int
			parts := strings.Split(spec, ":")
			fn = parts[0]
			fmt.Sscan(parts[1], &bs)
			fmt.Sscan(parts[2], &n)
			fmt.Sscan(parts[3], &ip)
			c := cfbCase{fn, bs, n, ip == 1}
			u := verifyUnit(env, c.fn, env.funcs[c.fn], UnitOpts{Inst: cfbInstance(env, c)})
			triv, non := 0, 0
			for _, o := range u.Obligs {
				if o.Trivial {
					triv++
				} else {
					non++
					fmt.Println("  nontrivial:", o.Name, truncate(o.Goal.String(), 200))
				}
			}
			fmt.Printf("%s: %d trivial, %d non-trivial, unsupported=%v, %v\n", u.Key, triv, non, u.Unsupported, time.Since(t0))
		}
	default:
		fmt.Fprintln(os.Stderr, "unknown command", os.Args[1])
		os.Exit(2)
	}
}

func cmdList(args []string) {
	fs := flag.NewFlagSet("list", flag.ExitOnError)
	repo := fs.String("repo", "/repo", "repository")
	fs.Parse(args)
	env, err := loadEnv(*repo)
	if err != nil {
		fmt.Fprintln(os.Stderr, err)
		os.Exit(2)
	}
	var keys []string
	for k := range env.funcs {
		keys = append(keys, k)
	}
	sort.Strings(keys)
	for _, k := range keys {
		mark := " "
		if env.con.Funcs[k] != nil {
			mark = "*"
		}
		fmt.Printf("%s %s\n", mark, k)
	}
}

// cmdUnit: developer command, verifies the given units and prints every obligation.
func cmdUnit(args []string) {
	fs := flag.NewFlagSet("unit", flag.ExitOnError)
	repo := fs.String("repo", "/repo", "repository")
	verbose := fs.Bool("v", false, "verbose")
	timeout := fs.Int("t", 10000, "timeout ms")
	keep := fs.String("keep", "", "directory for failed queries")
	lock := fs.Bool("lock", false, "lock discipline obligations")
	seq := fs.Bool("seq", false, "sequential mode (no havoc at Lock)")
	nocache := fs.Bool("nocache", false, "disable cache")
	dump := fs.String("dump", "", "dump scripts of obligations whose name contains this")
	guard := fs.Bool("guard", false, "check the lock-guard discipline (C14)")
	only := fs.String("only", "", "report only obligations of this kind")
	fs.Parse(args)
	t0 := time.Now()
	env, err := loadEnv(*repo)
	if err != nil {
		fmt.Fprintln(os.Stderr, err)
		os.Exit(2)
	}
	fmt.Printf("loaded in %v\n", time.Since(t0))
	cfg := &SolverCfg{QuickMs: 2000, FullMs: *timeout, CacheDir: "/verif/.cache", Workers: 16, KeepDir: *keep}
	if *nocache {
		cfg.CacheDir = ""
	}
	var units []*Unit
	for _, key := range fs.Args() {
		var keys []string
		if strings.HasSuffix(key, "*") {
			for k := range env.funcs {
				if strings.HasPrefix(k, strings.TrimSuffix(key, "*")) {
					keys = append(keys, k)
				}
			}
			sort.Strings(keys)
		} else {
			keys = []string{key}
		}
		for _, k := range keys {
			fn := env.funcs[k]
			if fn == nil {
				fmt.Fprintln(os.Stderr, "no such function:", k)
				os.Exit(2)
			}
			t1 := time.Now()
			u := verifyUnit(env, k, fn, UnitOpts{LockMode: *lock, Sequential: *seq, Guard: *guard})
			fmt.Printf("== %s: %d obligations, %d assumptions, generated in %v\n", k, len(u.Obligs), len(u.Assumes), time.Since(t1))
			units = append(units, u)
		}
	}
	if *only != "" {
		for _, u := range units {
			var keep []*Oblig
			for _, o := range u.Obligs {
				if o.Kind == *only {
					keep = append(keep, o)
				}
			}
			u.Obligs = keep
		}
	}
	if *dump != "" {
		os.MkdirAll("/tmp/dump", 0o755)
		for _, u := range units {
			for _, o := range u.Obligs {
				if strings.Contains(o.Name, *dump) {
					os.WriteFile("/tmp/dump/"+safeName(o.Name)+".smt2", []byte(obligScript(u, o)), 0o644)
				}
			}
		}
	}
	t2 := time.Now()
	dischargeAll(units, cfg, nil)
	fmt.Printf("discharged in %v\n", time.Since(t2))
	bad := 0
	for _, u := range units {
		for _, m := range u.Unsupported {
			fmt.Printf("UNSUPPORTED %s: %s\n", u.Key, m)
			bad++
		}
		for _, o := range u.Obligs {
			ok := o.Result == "unsat"
			if o.Cover {
				ok = o.Result != "unsat"
			}
			if !ok {
				bad++
			}
			if *verbose || !ok {
				st := "ok  "
				if !ok {
					st = "FAIL"
				}
				fmt.Printf("%s %-8s %-8s %5dms %s %s\n", st, o.Result, o.Solver, o.TimeMs, o.Name, o.Pos)
				if !ok && !o.Cover {
					fmt.Printf("     goal: %s\n", truncate(o.Goal.String(), 300))
				}
				if !ok && o.Output != "" && *verbose {
					fmt.Println(truncate(o.Output, 1500))
				}
			}
		}
		if *verbose {
			var ns []string
			for n := range u.Notes {
				ns = append(ns, n)
			}
			sort.Strings(ns)
			for _, n := range ns {
				fmt.Println("  note:", n)
			}
		}
	}
	fmt.Printf("total %v, failures %d, solver calls %d (cached %d)\n", time.Since(t0), bad, stats.Queries, stats.Cached)
	if bad > 0 {
		os.Exit(1)
	}
}
