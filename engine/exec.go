package main

// Forward symbolic execution of go/ssa (naive form) with state merging and loop cut points.

import (
	"fmt"
	"go/ast"
	"go/constant"
	"go/token"
	"go/types"
	"math/big"
	"sort"
	"strings"

	"golang.org/x/tools/go/ssa"
)

type Oblig struct {
	Name    string
	Kind    string
	Fn      string
	Pos     string
	Desc    string
	Tags    []string
	NAssume int
	PC      *Term
	Goal    *Term
	Trivial bool
	Short   bool // outside the property's selection: one short attempt only
	Cover   bool // vacuity cover: expected sat
	Result  string
	Solver  string
	TimeMs  int64
	Output  string
	Line    int
}

type Unit struct {
	Key         string
	Fn          *ssa.Function
	Assumes     []*Term
	AssumeTags  map[*Term][]string // assumptions that come from a tagged loop invariant (tag-sliced fallback query)
	Obligs      []*Oblig
	Unsupported []string
	Notes       map[string]bool
	Inlined     map[string]bool
	Trusted     map[string]bool
	occ         map[string]int
}

type deferRec struct {
	guard *Term
	call  *ssa.CallCommon
	instr ssa.Instruction
}

type retRec struct {
	st  *State
	val Val
}

type loopInfo struct {
	header *ssa.BasicBlock
	body   map[*ssa.BasicBlock]bool
	back   map[*ssa.BasicBlock]bool // sources of back edges
}

type cfgInfo struct {
	order   []*ssa.BasicBlock
	loops   map[*ssa.BasicBlock]*loopInfo
	isBack  map[[2]*ssa.BasicBlock]bool
	reach   map[*ssa.BasicBlock]bool
	hasLoop bool
}

type Frame struct {
	fn       *ssa.Function
	key      string
	cells    map[*ssa.Alloc]*Cell
	regs     map[ssa.Value]Val
	params   []Val
	pcells   map[int]*Cell // param index -> copy-in cell (pointer-to-value params)
	freeVars []Val
	defers   []deferRec
	rets     []retRec
	old      *State
	con      *FuncContract
	parent   *Frame
	top      bool
	cfg      *cfgInfo
	curLoop  *loopCtx
	iterIdx  map[string]*Term
}

type loopCtx struct {
	ordinal int
	entry   *State
}

type writeRec struct {
	heap string
	ref  *Term
}

type Exec struct {
	inAtomic    int      // inside the model of a sync/atomic operation
	curTags     []string // tags of the loop invariant being assumed
	env         *Env
	unit        *Unit
	closures    map[*Term]*ClosureVal
	factSink    *[]*Term
	noTypeFacts bool
	depth       int
	cellSeq     int
	dry         int
	writes      *[]writeRec
	cellWrites  map[*Cell]bool
	modAllowed  []modEntry // write frame of the top-level unit (nil = unchecked)
	modCheck    bool
	topFrame    *Frame
	cfgCache    map[*ssa.Function]*cfgInfo
	lockMode    bool
	havocFor    string // contract key whose modifies clause is being applied
	loopLocks   map[loopKey][]autoInv
	guardMode   bool
	freshRefs   map[*Term]bool
	sectionOld  map[string]*State // state at Lock per monitor key (for section clauses)
	sequential  bool
	concrete    bool
	inst        *Instance
	assumed     map[*Term]bool
}

func newExec(env *Env, key string, fn *ssa.Function) *Exec {
	u := &Unit{Key: key, Fn: fn, Notes: map[string]bool{}, Inlined: map[string]bool{}, Trusted: map[string]bool{}, occ: map[string]int{}}
	return &Exec{env: env, unit: u, closures: map[*Term]*ClosureVal{}, cfgCache: map[*ssa.Function]*cfgInfo{}}
}

// ---- obligations ----

func (x *Exec) tagAssume(g *Term) {
	if len(x.curTags) == 0 {
		return
	}
	if x.unit.AssumeTags == nil {
		x.unit.AssumeTags = map[*Term][]string{}
	}
	x.unit.AssumeTags[g] = x.curTags
}

func (x *Exec) assume(st *State, f *Term) {
	if x.dry > 0 {
		return
	}
	if f.Op == OpAnd {
		for _, c := range f.Args {
			x.assume(st, c)
		}
		return
	}
	g := mkImp(st.pc, f)
	if g == tTrue {
		return
	}
	if !g.closed {
		panic("assume: formula with a free bound variable: " + truncate(g.String(), 600))
	}
	if x.assumed == nil {
		x.assumed = map[*Term]bool{}
	}
	if x.assumed[g] || x.assumed[f] {
		return
	}
	x.assumed[g] = true
	x.unit.Assumes = append(x.unit.Assumes, g)
	x.tagAssume(g)
	// equivalent re-parametrised versions of quantified facts (better triggers)
	for _, a := range altsOf(f) {
		ag := mkImp(st.pc, a)
		if !ag.closed {
			panic("assume(alt): free bound variable: " + truncate(ag.String(), 400) + "\n  ORIGINAL: " + truncate(f.String(), 400))
		}
		if !x.assumed[ag] {
			x.assumed[ag] = true
			x.unit.Assumes = append(x.unit.Assumes, ag)
			x.tagAssume(ag)
		}
	}
}

// altsOf: alternative versions of the quantified (positive) parts of f.
func altsOf(f *Term) []*Term {
	switch f.Op {
	case OpForall:
		return f.Alt
	case OpImp:
		var out []*Term
		for _, a := range altsOf(f.Args[1]) {
			out = append(out, mkImp(f.Args[0], a))
		}
		return out
	}
	return nil
}

// assert records an obligation and then assumes the goal.
func (x *Exec) assert(st *State, kind, desc string, goal *Term, pos token.Pos, cl *Clause) {
	if x.dry > 0 {
		return
	}
	if cl != nil && goal.Op == OpAnd && len(goal.Args) > 1 {
		for k, g := range goal.Args {
			x.assert(st, kind, fmt.Sprintf("%s /%d", desc, k+1), g, pos, cl)
		}
		return
	}
	o := &Oblig{Kind: kind, Desc: desc, Fn: x.unit.Key, Pos: x.env.posStr(pos), NAssume: len(x.unit.Assumes), PC: st.pc, Goal: goal}
	base := fmt.Sprintf("%s:%s:%q", x.unit.Key, kind, desc)
	x.unit.occ[base]++
	o.Name = fmt.Sprintf("%s#%d", base, x.unit.occ[base])
	if cl != nil {
		o.Tags = cl.Tags
		o.Line = cl.Line
	}
	if mkImp(st.pc, goal) == tTrue {
		o.Trivial = true
		o.Result = "unsat"
		o.Solver = "simplifier"
	}
	x.unit.Obligs = append(x.unit.Obligs, o)
	x.assume(st, goal)
}

func (x *Exec) cover(st *State, desc string) {
	if x.dry > 0 {
		return
	}
	o := &Oblig{Kind: "cover", Desc: desc, Fn: x.unit.Key, NAssume: len(x.unit.Assumes), PC: st.pc, Goal: tFalse, Cover: true}
	base := fmt.Sprintf("%s:cover:%q", x.unit.Key, desc)
	x.unit.occ[base]++
	o.Name = fmt.Sprintf("%s#%d", base, x.unit.occ[base])
	x.unit.Obligs = append(x.unit.Obligs, o)
}

func (x *Exec) note(s string) { x.unit.Notes[s] = true }

// ---- CFG analysis ----

func (x *Exec) cfgOf(fn *ssa.Function) *cfgInfo {
	if c, ok := x.cfgCache[fn]; ok {
		return c
	}
	c := &cfgInfo{loops: map[*ssa.BasicBlock]*loopInfo{}, isBack: map[[2]*ssa.BasicBlock]bool{}, reach: map[*ssa.BasicBlock]bool{}}
	if len(fn.Blocks) == 0 {
		x.cfgCache[fn] = c
		return c
	}
	// back edges: u->h with h dominating u
	for _, b := range fn.Blocks {
		for _, s := range b.Succs {
			if s.Dominates(b) {
				c.isBack[[2]*ssa.BasicBlock{b, s}] = true
				li := c.loops[s]
				if li == nil {
					li = &loopInfo{header: s, body: map[*ssa.BasicBlock]bool{s: true}, back: map[*ssa.BasicBlock]bool{}}
					c.loops[s] = li
				}
				li.back[b] = true
				// natural loop body
				var stack []*ssa.BasicBlock
				if !li.body[b] {
					li.body[b] = true
					stack = append(stack, b)
				}
				for len(stack) > 0 {
					n := stack[len(stack)-1]
					stack = stack[:len(stack)-1]
					for _, p := range n.Preds {
						if !li.body[p] {
							li.body[p] = true
							stack = append(stack, p)
						}
					}
				}
				c.hasLoop = true
			}
		}
	}
	// reverse postorder ignoring back edges
	seen := map[*ssa.BasicBlock]bool{}
	var post []*ssa.BasicBlock
	var dfs func(b *ssa.BasicBlock)
	dfs = func(b *ssa.BasicBlock) {
		seen[b] = true
		for i := len(b.Succs) - 1; i >= 0; i-- {
			s := b.Succs[i]
			if c.isBack[[2]*ssa.BasicBlock{b, s}] || seen[s] {
				continue
			}
			dfs(s)
		}
		post = append(post, b)
	}
	dfs(fn.Blocks[0])
	for i := len(post) - 1; i >= 0; i-- {
		c.order = append(c.order, post[i])
	}
	if fn.Recover != nil && !seen[fn.Recover] {
		// recover block unreachable in normal flow: ignored
	}
	x.cfgCache[fn] = c
	return c
}

// ---- values ----

func (x *Exec) constVal(c *ssa.Const) Val {
	t := types.Unalias(c.Type())
	if isTypeParam(t) {
		return x.env.te.zero(t)
	}
	if c.Value == nil {
		switch t.Underlying().(type) {
		case *types.Pointer:
			return nilPtr(derefType(t))
		}
		return x.env.te.zero(t)
	}
	switch u := t.Underlying().(type) {
	case *types.Basic:
		switch {
		case u.Info()&types.IsInteger != 0:
			s := constant.ToInt(c.Value).ExactString()
			v, ok := new(big.Int).SetString(s, 10)
			if !ok {
				x.unsup("bad int const %s", s)
			}
			return mkBig(v)
		case u.Info()&types.IsBoolean != 0:
			return mkBool(constant.BoolVal(c.Value))
		case u.Info()&types.IsString != 0:
			s := constant.StringVal(c.Value)
			v := mkVar(fmt.Sprintf("strlit!%x", hashStr(s)), sortStr)
			return v
		default:
			return mkVar("fconst!"+fmt.Sprintf("%x", hashStr(c.Value.ExactString())), unintSort("Float"))
		}
	}
	x.unsup("constant of type %v", t)
	return nil
}

func hashStr(s string) uint64 {
	var h uint64 = 14695981039346656037
	for i := 0; i < len(s); i++ {
		h ^= uint64(s[i])
		h *= 1099511628211
	}
	return h
}

func (x *Exec) val(fr *Frame, v ssa.Value) Val {
	switch c := v.(type) {
	case *ssa.Const:
		return x.constVal(c)
	case *ssa.Global:
		return &PtrVal{Nilc: tFalse, Base: PGlobal, Glob: c, BTyp: derefType(c.Type()), Typ: derefType(c.Type())}
	case *ssa.Function:
		return &ClosureVal{Fn: c}
	case *ssa.Builtin:
		return &BuiltinVal{Name: c.Name()}
	case *ssa.Parameter:
		for i, p := range fr.fn.Params {
			if p == c {
				return fr.params[i]
			}
		}
	case *ssa.FreeVar:
		for i, p := range fr.fn.FreeVars {
			if p == c {
				return fr.freeVars[i]
			}
		}
	case *ssa.Alloc:
		if cell, ok := fr.cells[c]; ok {
			return &PtrVal{Nilc: tFalse, Base: PLocal, Cell: cell, BTyp: cell.Typ, Typ: cell.Typ}
		}
	}
	if r, ok := fr.regs[v]; ok {
		return r
	}
	x.unsup("value %s (%T) not defined in %s", v.Name(), v, fr.fn.Name())
	return nil
}

func (x *Exec) term(fr *Frame, v ssa.Value) *Term {
	return x.toTerm(x.val(fr, v), v.Type())
}

// freshOf makes an unconstrained value of type t (with typing facts assumed).
func (x *Exec) freshOf(st *State, name string, t types.Type) Val {
	t = types.Unalias(t)
	if tup, ok := t.(*types.Tuple); ok {
		out := &TupleVal{}
		for i := 0; i < tup.Len(); i++ {
			out.Elems = append(out.Elems, x.freshOf(st, fmt.Sprintf("%s.%d", name, i), tup.At(i).Type()))
		}
		return out
	}
	if et := derefType(t); et != nil && !isTypeParam(et) && !(structOf(et) != nil && x.env.te.isObjectLike(et)) {
		// interior pointer of unknown provenance: a symbolic element pointer
		ref := fresh(name+".ref", sortInt)
		x.assume(st, mkAnd(mkLe(mkInt(0), ref), mkLe(ref, x.alloc(st))))
		return &PtrVal{Nilc: fresh(name+".nil", sortBool), Base: PElem, Ref: ref, BTyp: et, Idx: fresh(name+".idx", sortInt), Typ: et}
	}
	tm := fresh(name, x.env.te.sortOf(t))
	x.assumeTyped(st, t, tm)
	return x.fromTerm(tm, t)
}

// ---- running a function body ----

type edgeIn struct {
	from *ssa.BasicBlock
	st   *State
}

func (x *Exec) newCell(name string, t types.Type, pos token.Pos) *Cell {
	x.cellSeq++
	return &Cell{Name: name, Typ: t, ID: x.cellSeq, Pos: int(pos)}
}

// runConcrete executes a function along a single path: used for instantiated units in which
// every branch condition folds to a constant (loops are simply followed, no invariants).
func (x *Exec) runConcrete(fr *Frame, st *State) {
	fn := fr.fn
	fr.cfg = x.cfgOf(fn)
	b := fn.Blocks[0]
	var prev *ssa.BasicBlock
	for steps := 0; ; steps++ {
		if steps > 200000 {
			x.unsup("unroll: step limit exceeded in %s", fn.Name())
		}
		var edges []edgeIn
		if prev != nil {
			edges = []edgeIn{{prev, st}}
		}
		succs := x.execBlock(fr, b, st, edges, []*Term{tTrue})
		if len(succs) == 0 {
			return
		}
		var next *succOut
		for i := range succs {
			if succs[i].st.pc == tFalse {
				continue
			}
			if next != nil {
				x.unsup("unroll: branch condition in %s is not concrete (%s)", fn.Name(), x.env.posStr(b.Instrs[len(b.Instrs)-1].Pos()))
			}
			next = &succs[i]
		}
		if next == nil {
			return
		}
		prev, b, st = b, next.to, next.st
	}
}

func (x *Exec) runBody(fr *Frame, st *State) {
	fn := fr.fn
	if len(fn.Blocks) == 0 {
		x.unsup("function %s has no body", fn.Name())
	}
	if x.concrete {
		x.runConcrete(fr, st)
		return
	}
	fr.cfg = x.cfgOf(fn)
	in := map[*ssa.BasicBlock][]edgeIn{}
	in[fn.Blocks[0]] = []edgeIn{{nil, st}}
	for _, b := range fr.cfg.order {
		edges := in[b]
		if len(edges) == 0 {
			continue
		}
		delete(in, b)
		var cur *State
		var rem []*Term
		states := make([]*State, len(edges))
		for i, e := range edges {
			states[i] = e.st
		}
		if li := fr.cfg.loops[b]; li != nil {
			cur = x.enterLoop(fr, li, x.mergeStates(states))
			edges = nil
		} else {
			cur = x.mergeStates(states)
			if len(states) > 1 {
				pcs := make([]*Term, len(states))
				for i, s := range states {
					pcs[i] = s.pc
				}
				_, rem = factorPCs(pcs)
			}
		}
		if cur.pc == tFalse {
			continue
		}
		if cur == states[0] && len(states) == 1 {
			// fine: exclusive ownership (each edge state is a fresh clone)
		}
		succs := x.execBlock(fr, b, cur, edges, rem)
		for _, s := range succs {
			if s.st.pc == tFalse {
				continue
			}
			if fr.cfg.isBack[[2]*ssa.BasicBlock{b, s.to}] {
				x.backEdge(fr, fr.cfg.loops[s.to], s.st)
				continue
			}
			in[s.to] = append(in[s.to], edgeIn{b, s.st})
		}
	}
}

type succOut struct {
	to *ssa.BasicBlock
	st *State
}

func (x *Exec) execBlock(fr *Frame, b *ssa.BasicBlock, st *State, edges []edgeIn, rem []*Term) []succOut {
	for _, in := range b.Instrs {
		switch i := in.(type) {
		case *ssa.Phi:
			if edges == nil {
				// loop header phi: havoc
				fr.regs[i] = x.freshOf(st, "phi."+i.Name(), i.Type())
				continue
			}
			var cur Val
			used := map[int]bool{}
			for k, e := range edges {
				// find pred index
				idx := -1
				for pi, p := range b.Preds {
					if p == e.from && !used[pi] {
						idx = pi
						used[pi] = true
						break
					}
				}
				if idx < 0 {
					x.unsup("phi: predecessor not found")
				}
				v := x.val(fr, i.Edges[idx])
				if cur == nil {
					cur = v
				} else {
					cur = x.mergeVal(rem[k], v, cur)
				}
			}
			fr.regs[i] = cur
		case *ssa.If:
			c := x.term(fr, i.Cond)
			s1 := st.clone()
			s1.pc = mkAnd(st.pc, c)
			s2 := st
			s2.pc = mkAnd(st.pc, mkNot(c))
			return []succOut{{b.Succs[0], s1}, {b.Succs[1], s2}}
		case *ssa.Jump:
			return []succOut{{b.Succs[0], st}}
		case *ssa.Return:
			var rv Val
			switch len(i.Results) {
			case 0:
			case 1:
				rv = x.val(fr, i.Results[0])
			default:
				tv := &TupleVal{}
				for _, r := range i.Results {
					tv.Elems = append(tv.Elems, x.val(fr, r))
				}
				rv = tv
			}
			fr.rets = append(fr.rets, retRec{st, rv})
			return nil
		case *ssa.Panic:
			if fr.con != nil && fr.con.Flags["panics"] != "" && fr.top {
				return nil
			}
			x.assert(st, "panic", x.panicDesc(fr, i), tFalse, i.Pos(), nil)
			return nil
		default:
			x.execInstr(fr, st, in)
			if st.pc == tFalse {
				return nil
			}
		}
	}
	return nil
}

func (x *Exec) panicDesc(fr *Frame, p *ssa.Panic) string {
	if mi, ok := p.X.(*ssa.MakeInterface); ok {
		if c, ok := mi.X.(*ssa.Const); ok && c.Value != nil && c.Value.Kind() == constant.String {
			s := constant.StringVal(c.Value)
			if len(s) > 40 {
				s = s[:40]
			}
			return "panic(" + s + ")"
		}
	}
	return "panic"
}

// ---- loops ----

func (x *Exec) loopOrdinalOf(fr *Frame, li *loopInfo) (int, ast.Node) {
	fn := fr.fn
	var lo, hi token.Pos
	for b := range li.body {
		for _, in := range b.Instrs {
			p := in.Pos()
			if _, isDbg := in.(*ssa.DebugRef); isDbg {
				continue
			}
			if !p.IsValid() {
				continue
			}
			if !lo.IsValid() || p < lo {
				lo = p
			}
			if p > hi {
				hi = p
			}
		}
	}
	if !lo.IsValid() {
		return 0, nil
	}
	var best ast.Node
	for _, n := range x.env.loopStmts(fn) {
		if n.Pos() <= lo && hi < n.End() {
			if best == nil || (n.End()-n.Pos()) < (best.End()-best.Pos()) {
				best = n
			}
		}
	}
	if best == nil {
		return 0, nil
	}
	return x.env.loopOrdinal(fn, best), best
}

// cellsStoredIn collects local cells that may be assigned in the loop body, including through
// closures called (transitively) from it.
func (x *Exec) cellsStoredIn(fr *Frame, li *loopInfo, st *State) map[*Cell]bool {
	out := map[*Cell]bool{}
	seen := map[*ssa.Function]bool{}
	for b := range li.body {
		for _, in := range b.Instrs {
			x.scanStores(fr, st, in, out, seen)
		}
	}
	return out
}

// rootCellOf: the local cell an address expression points into (nil if not a local).
func (x *Exec) rootCellOf(fr *Frame, v ssa.Value) *Cell {
	for {
		switch a := v.(type) {
		case *ssa.Alloc:
			return fr.cells[a]
		case *ssa.FieldAddr:
			v = a.X
		case *ssa.IndexAddr:
			if _, isPtr := a.X.Type().Underlying().(*types.Pointer); isPtr {
				v = a.X
			} else {
				return nil
			}
		case *ssa.FreeVar:
			for k, fv := range fr.fn.FreeVars {
				if fv == a && k < len(fr.freeVars) {
					if p, ok := fr.freeVars[k].(*PtrVal); ok && p.Base == PLocal {
						return p.Cell
					}
				}
			}
			return nil
		case *ssa.Parameter:
			for i, p := range fr.fn.Params {
				if p == a {
					if c, ok := fr.pcells[i]; ok {
						return c
					}
					if i < len(fr.params) {
						if pv, ok := fr.params[i].(*PtrVal); ok && pv.Base == PLocal {
							return pv.Cell
						}
					}
				}
			}
			return nil
		default:
			return nil
		}
	}
}

// scanStores records the cells assigned by one instruction of frame fr (or of a pseudo frame
// standing for a closure body).
func (x *Exec) scanStores(fr *Frame, st *State, in ssa.Instruction, out map[*Cell]bool, seen map[*ssa.Function]bool) {
	closureOf := func(v ssa.Value) *ClosureVal {
		switch u := v.(type) {
		case *ssa.MakeClosure:
			cv := &ClosureVal{Fn: u.Fn.(*ssa.Function)}
			for _, b := range u.Bindings {
				var bv Val
				switch bb := b.(type) {
				case *ssa.Alloc:
					if c, ok := fr.cells[bb]; ok {
						bv = &PtrVal{Nilc: tFalse, Base: PLocal, Cell: c, BTyp: c.Typ, Typ: c.Typ}
					}
				case *ssa.FreeVar:
					for k, fv := range fr.fn.FreeVars {
						if fv == bb && k < len(fr.freeVars) {
							bv = fr.freeVars[k]
						}
					}
				default:
					if r, ok := fr.regs[b]; ok {
						bv = r
					}
				}
				cv.Bindings = append(cv.Bindings, bv)
			}
			return cv
		case *ssa.UnOp:
			if c := x.rootCellOf(fr, u.X); c != nil {
				if cv, ok := st.cells[c].(*ClosureVal); ok {
					return cv
				}
			}
		case *ssa.Function:
			return &ClosureVal{Fn: u}
		}
		if r, ok := fr.regs[v]; ok {
			if cv, ok := r.(*ClosureVal); ok {
				return cv
			}
		}
		return nil
	}
	scanClosure := func(cv *ClosureVal) {
		if cv == nil || cv.Fn == nil || seen[cv.Fn] || len(cv.Fn.Blocks) == 0 {
			return
		}
		if cv.Fn.Pkg != x.env.spkg && cv.Fn.Parent() == nil && cv.Fn.Synthetic == "" {
			return
		}
		seen[cv.Fn] = true
		pf := &Frame{fn: cv.Fn, cells: map[*ssa.Alloc]*Cell{}, regs: map[ssa.Value]Val{}, freeVars: cv.Bindings, pcells: map[int]*Cell{}}
		for _, b := range cv.Fn.Blocks {
			for _, in2 := range b.Instrs {
				x.scanStores(pf, st, in2, out, seen)
			}
		}
	}
	switch i := in.(type) {
	case *ssa.Store:
		if c := x.rootCellOf(fr, i.Addr); c != nil {
			out[c] = true
		}
	case *ssa.MakeClosure:
		scanClosure(closureOf(i))
	case *ssa.Call:
		if !i.Call.IsInvoke() {
			scanClosure(closureOf(i.Call.Value))
			for _, a := range i.Call.Args {
				if _, isSig := a.Type().Underlying().(*types.Signature); isSig {
					scanClosure(closureOf(a))
				}
				// a pointer to a local passed to a callee may be written through
				if _, isPtr := a.Type().Underlying().(*types.Pointer); isPtr {
					if c := x.rootCellOf(fr, a); c != nil {
						out[c] = true
					}
				}
			}
		}
	case *ssa.Defer:
		scanClosure(closureOf(i.Call.Value))
	}
}

func termHasVar(t *Term, vs map[*Term]bool) bool {
	if len(vs) == 0 {
		return false
	}
	for _, v := range collectVars(t) {
		if vs[v] {
			return true
		}
	}
	return false
}

type havocPlan struct {
	cells  map[*Cell]bool
	coarse map[string]bool
	refs   map[string][]*Term
}

// planHavoc determines what a loop (or iterator body) may modify by dry-running body().
func (x *Exec) planHavoc(st *State, cells map[*Cell]bool, body func(st *State)) *havocPlan {
	plan := &havocPlan{cells: cells, coarse: map[string]bool{}, refs: map[string][]*Term{}}
	written := map[string]bool{}
	s0 := serialCounter
	for round := 0; round < 6; round++ {
		ds := st.clone()
		syms := map[*Term]bool{}
		for _, c := range sortedCells(cells) {
			if v, ok := ds.cells[c]; ok {
				if tm, ok := v.(*Term); ok {
					f := fresh("dry."+c.Name, tm.Sort)
					syms[f] = true
					ds.cells[c] = f
				} else if pv, ok := v.(*PtrVal); ok && pv.Base == PObj && len(pv.Path) == 0 {
					f := fresh("dry."+c.Name, sortInt)
					syms[f] = true
					ds.cells[c] = &PtrVal{Nilc: mkEq(f, mkInt(0)), Base: PObj, Ref: f, BTyp: pv.BTyp, Typ: pv.Typ}
				} else if _, ok := v.(*ClosureVal); ok {
					// keep
				} else {
					delete(ds.cells, c)
				}
			}
		}
		var names []string
		for n := range written {
			names = append(names, n)
		}
		sort.Strings(names)
		for _, n := range names {
			f := fresh("dry."+n, heapSorts[n])
			syms[f] = true
			ds.heap[n] = f
		}
		var ws []writeRec
		saveW, saveCW, saveT := x.writes, x.cellWrites, touchLog
		x.writes = &ws
		touched := map[string]bool{}
		touchLog = &touched
		x.dry++
		func() {
			defer func() { x.dry--; x.writes = saveW; x.cellWrites = saveCW; touchLog = saveT }()
			body(ds)
		}()
		if saveT != nil {
			for n := range touched {
				(*saveT)[n] = true
			}
		}
		recorded := map[string]bool{}
		for _, w := range ws {
			recorded[w.heap] = true
		}
		var tn []string
		for n := range touched {
			tn = append(tn, n)
		}
		sort.Strings(tn)
		for _, n := range tn {
			if !recorded[n] {
				ws = append(ws, writeRec{n, nil})
			}
		}
		_ = saveW
		changed := false
		plan.coarse = map[string]bool{}
		plan.refs = map[string][]*Term{}
		for _, w := range ws {
			if !written[w.heap] {
				written[w.heap] = true
				changed = true
			}
			if w.ref == nil || termHasVar(w.ref, syms) || newerThan(w.ref, s0) {
				plan.coarse[w.heap] = true
				continue
			}
			dup := false
			for _, r := range plan.refs[w.heap] {
				if r == w.ref {
					dup = true
				}
			}
			if !dup {
				plan.refs[w.heap] = append(plan.refs[w.heap], w.ref)
			}
		}
		if !changed {
			break
		}
	}
	if x.writes != nil {
		for n := range plan.coarse {
			*x.writes = append(*x.writes, writeRec{n, nil})
		}
		for n, rs := range plan.refs {
			for _, r := range rs {
				*x.writes = append(*x.writes, writeRec{n, r})
			}
		}
	}
	return plan
}

func sortedCells(m map[*Cell]bool) []*Cell {
	var out []*Cell
	for c := range m {
		out = append(out, c)
	}
	sort.Slice(out, func(i, j int) bool { return out[i].ID < out[j].ID })
	return out
}

func (x *Exec) applyHavoc(st *State, plan *havocPlan, tag string) {
	for _, c := range sortedCells(plan.cells) {
		v, ok := st.cells[c]
		if !ok {
			continue
		}
		switch pv := v.(type) {
		case *Term:
			f := fresh(tag+"."+c.Name, pv.Sort)
			st.cells[c] = f
			x.assumeTyped(st, c.Typ, f)
		case *PtrVal:
			if pv.Base == PObj && len(pv.Path) == 0 {
				f := fresh(tag+"."+c.Name, sortInt)
				x.assumeTyped(st, c.Typ, f)
				st.cells[c] = &PtrVal{Nilc: mkEq(f, mkInt(0)), Base: PObj, Ref: f, BTyp: pv.BTyp, Typ: pv.Typ}
			} else {
				delete(st.cells, c)
			}
		case *ClosureVal:
			// closures are never reassigned in the supported subset
		default:
			delete(st.cells, c)
		}
	}
	var names []string
	for n := range plan.coarse {
		names = append(names, n)
	}
	for n := range plan.refs {
		if !plan.coarse[n] {
			names = append(names, n)
		}
	}
	sort.Strings(names)
	for _, n := range names {
		so := heapSorts[n]
		old := st.H(n, so)
		if n == "$alloc" {
			f := fresh(tag+".$alloc", sortInt)
			st.setH(n, f)
			x.assume(st, mkLe(old, f))
			continue
		}
		if plan.coarse[n] || so.Kind != SArray {
			nh := fresh(tag+"."+n, so)
			st.setH(n, nh)
			if x.modCheck && so.Kind == SArray && so.Idx == sortInt && !strings.HasPrefix(n, "ghost:") {
				// objects outside the function's declared frame are unchanged (every write is
				// checked against that frame)
				o := mkBound("o", sortInt)
				al := x.writeAllowed(st, n, o)
				if al != tTrue {
					x.assume(st, mkQuant(OpForall, []*Term{o}, mkImp(mkNot(al), mkEq(mkSelect(nh, o), mkSelect(old, o)))))
				}
			}
			continue
		}
		cur := old
		for _, r := range plan.refs[n] {
			cur = mkStore(cur, r, fresh(tag+"."+n, so.Elem))
		}
		st.setH(n, cur)
	}
}

func (x *Exec) loopInvariants(fr *Frame, ord int) []*Clause {
	rf := rootFn(fr.fn)
	con := x.env.con.Funcs[x.env.keyOf(rf)]
	if con == nil {
		return nil
	}
	con.used = true
	return con.LoopInv[ord]
}

func (x *Exec) enterLoop(fr *Frame, li *loopInfo, entry *State) *State {
	ord, node := x.loopOrdinalOf(fr, li)
	if ord < 0 {
		// a loop the contract does not know (added since the loop map was recorded): it is cut with
		// the automatic invariants only - everything it may modify is forgotten. Sound; what the
		// function's clauses need from it must then be re-proved by an invariant a reviewer adds.
		x.note(fmt.Sprintf("loop %q of %s has no counterpart in the recorded loop map: cut without a declared invariant", x.env.loopHeader(node), fr.key))
	}
	invs := x.loopInvariants(fr, ord)
	pos := token.NoPos
	if node != nil {
		pos = node.Pos()
	}
	auto := x.autoInvariant(fr, li)
	if x.lockMode {
		// critical sections are balanced inside loop bodies: every mutex flag heap is the same at
		// the loop head as on entry (asserted at the back edge)
		if x.loopLocks == nil {
			x.loopLocks = map[loopKey][]autoInv{}
		}
		var la []autoInv
		for _, hn := range x.env.mutexHeaps() {
			hn := hn
			ev := entry.H(hn, arraySort(sortInt, sortBool))
			la = append(la, autoInv{desc: "lock flags " + strings.TrimPrefix(hn, "ghost:") + " as on loop entry", eval: func(st *State) *Term {
				return mkEq(st.H(hn, arraySort(sortInt, sortBool)), ev)
			}})
		}
		x.loopLocks[loopKey{fr, li}] = la
		auto = append(auto, la...)
	}
	// 1. invariants hold on entry
	for _, cl := range invs {
		x.assertClause(entry, "loop-entry", fmt.Sprintf("loop %d: ", ord), x.clauseEnv(fr, entry, nil), cl, pos)
	}
	for _, a := range auto {
		x.assert(entry, "loop-entry", fmt.Sprintf("loop %d: auto %s", ord, a.desc), a.eval(entry), pos, nil)
	}
	// 2. havoc plan
	cells := x.cellsStoredIn(fr, li, entry)
	plan := x.planHavoc(entry, cells, func(ds *State) {
		x.runLoopBodyOnce(fr, li, ds)
	})
	head := entry.clone()
	x.applyHavoc(head, plan, fmt.Sprintf("L%d", ord))
	// 3. assume invariants
	for _, a := range auto {
		x.assume(head, a.eval(head))
	}
	for _, cl := range invs {
		x.curTags = cl.Tags
		g := x.evalClause(fr, head, cl, pos, true)
		x.assume(head, g)
		x.curTags = nil
	}
	if ord == 0 && len(invs) == 0 {
		x.note(fmt.Sprintf("loop without source ordinal in %s", fr.key))
	}
	x.cover(head, fmt.Sprintf("loop %d head reachable under its invariant", ord))
	return head
}

func (x *Exec) backEdge(fr *Frame, li *loopInfo, st *State) {
	if x.dry > 0 {
		return
	}
	ord, node := x.loopOrdinalOf(fr, li)
	pos := token.NoPos
	if node != nil {
		pos = node.Pos()
	}
	for _, a := range append(x.autoInvariant(fr, li), x.loopLocks[loopKey{fr, li}]...) {
		kind := "loop-preserve"
		if strings.HasPrefix(a.desc, "lock flags") {
			kind = "lock"
		}
		x.assert(st, kind, fmt.Sprintf("loop %d: auto %s", ord, a.desc), a.eval(st), pos, nil)
	}
	for _, cl := range x.loopInvariants(fr, ord) {
		x.assertClause(st, "loop-preserve", fmt.Sprintf("loop %d: ", ord), x.clauseEnv(fr, st, nil), cl, pos)
	}
}

type loopKey struct {
	fr *Frame
	li *loopInfo
}

type autoInv struct {
	desc string
	eval func(st *State) *Term
}

// autoInvariant: bounds of the hidden index of range loops.
func (x *Exec) autoInvariant(fr *Frame, li *loopInfo) []autoInv {
	h := li.header
	var out []autoInv
	if !strings.HasPrefix(h.Comment, "rangeindex.loop") && !strings.HasPrefix(h.Comment, "rangeint.loop") {
		return nil
	}
	// pattern: t = *ri; t' = t + 1; *ri = t'; c = t' < N; if c
	var ri *ssa.Alloc
	var bound ssa.Value
	for _, in := range h.Instrs {
		switch i := in.(type) {
		case *ssa.Store:
			if a, ok := i.Addr.(*ssa.Alloc); ok {
				ri = a
			}
		case *ssa.BinOp:
			if i.Op == token.LSS {
				bound = i.Y
			}
		}
	}
	if ri == nil || bound == nil {
		return nil
	}
	cell := fr.cells[ri]
	if cell == nil {
		return nil
	}
	out = append(out, autoInv{"range index bounds", func(st *State) *Term {
		v, ok := st.cells[cell].(*Term)
		if !ok {
			return tTrue
		}
		b, ok := fr.regs[bound].(*Term)
		if !ok {
			if c, isC := bound.(*ssa.Const); isC {
				b = x.constVal(c).(*Term)
			} else {
				return mkLe(mkInt(-1), v)
			}
		}
		return mkAnd(mkLe(mkInt(-1), v), mkOr(mkLt(v, b), mkEq(v, mkInt(-1))))
	}})
	return out
}

// runLoopBodyOnce executes the blocks of the loop from the header once (dry mode).
func (x *Exec) runLoopBodyOnce(fr *Frame, li *loopInfo, st *State) {
	in := map[*ssa.BasicBlock][]edgeIn{}
	first := true
	saveRets, saveDefers := fr.rets, fr.defers
	defer func() { fr.rets, fr.defers = saveRets, saveDefers }()
	for _, b := range fr.cfg.order {
		if !li.body[b] {
			continue
		}
		var cur *State
		var edges []edgeIn
		var rem []*Term
		if b == li.header && first {
			first = false
			cur = st
		} else {
			edges = in[b]
			if len(edges) == 0 {
				continue
			}
			states := make([]*State, len(edges))
			for i, e := range edges {
				states[i] = e.st
			}
			if inner := fr.cfg.loops[b]; inner != nil {
				cur = x.enterLoop(fr, inner, x.mergeStates(states))
				edges = nil
			} else {
				cur = x.mergeStates(states)
				if len(states) > 1 {
					pcs := make([]*Term, len(states))
					for i, s := range states {
						pcs[i] = s.pc
					}
					_, rem = factorPCs(pcs)
				}
			}
		}
		if cur.pc == tFalse {
			continue
		}
		for _, s := range x.execBlock(fr, b, cur, edges, rem) {
			if !li.body[s.to] || fr.cfg.isBack[[2]*ssa.BasicBlock{b, s.to}] {
				continue
			}
			in[s.to] = append(in[s.to], edgeIn{b, s.st})
		}
	}
}

// checkWrite records/validates a heap write.
func (x *Exec) checkWrite(st *State, heap string, ref *Term, pos token.Pos) {
	if x.writes != nil {
		*x.writes = append(*x.writes, writeRec{heap, ref})
	}
	if x.dry > 0 || !x.modCheck {
		return
	}
	if heap == "$alloc" || strings.HasPrefix(heap, "ghost:") {
		return
	}
	ok := x.writeAllowed(st, heap, ref)
	if ok == tTrue {
		return
	}
	x.assert(st, "frame", "write to "+heap, ok, pos, nil)
}
