package main

// Model-driven replay of failed safety obligations on the receive entry points: the solver's
// counterexample is queried for the concrete datagram (length and bytes of the []byte parameter
// in the entry state) and for the scalar fields of the receiver object; a generated in-package
// test builds the receiver with the library's constructor, sets those scalar fields, feeds the
// datagram to the real function and counts the violation as reproduced only if the real code
// panics. Queues, heaps and maps of the counterexample state are NOT reconstructed (the
// constructor's empty ones are used): a counterexample that needs queued segments does not
// replay and is reported as no-failing-input-found.

import (
	"context"
	"fmt"
	"go/types"
	"sort"
	"strconv"
	"strings"

	"golang.org/x/tools/go/ssa"
)

// getValues runs the obligation's query and returns the model values of the given Int terms.
func getValues(u *Unit, o *Oblig, terms []*Term, extra []*Term) ([]int64, bool) {
	if len(terms) == 0 {
		return nil, true
	}
	s := newScript("ALL")
	pcs := map[*Term]bool{}
	for _, c := range conj(o.PC) {
		pcs[c] = true
	}
	for _, a := range u.Assumes[:o.NAssume] {
		if guardContradicts(a, pcs) {
			continue
		}
		// quantified assumptions are left out: the candidate may violate a quantified invariant
		// (it is only trusted if the real code misbehaves on it), but the solver can answer sat
		if hasQuant(a) {
			continue
		}
		s.Assert(a)
	}
	if hasQuant(o.Goal) || hasQuant(o.PC) {
		return nil, false
	}
	s.Assert(mkNot(mkImp(o.PC, o.Goal)))
	for _, e := range extra {
		s.Assert(e)
	}
	var q strings.Builder
	for _, t := range terms {
		s.prepare(t)
		q.WriteString(" ")
		q.WriteString(t.String())
	}
	s.Raw("(check-sat)")
	s.Raw("(get-value (" + q.String() + "))")
	for _, sd := range []solverDef{solvers[0], solvers[1]} {
		res, out, _ := runSolver(context.Background(), sd, s.String(), 20000, &SolverCfg{}, false)
		if res != "sat" {
			continue
		}
		vals := parseGetValue(out)
		if len(vals) == len(terms) {
			return vals, true
		}
	}
	return nil, false
}

// parseGetValue extracts the values of "((t v) (t v) ...)" (integers and booleans).
func parseGetValue(out string) []int64 {
	i := strings.Index(out, "((")
	if i < 0 {
		return nil
	}
	src := out[i:]
	// tokenise
	var toks []string
	cur := ""
	flush := func() {
		if cur != "" {
			toks = append(toks, cur)
			cur = ""
		}
	}
	bar := false
	for _, c := range src {
		switch {
		case bar:
			cur += string(c)
			if c == '|' {
				bar = false
			}
		case c == '|':
			cur += string(c)
			bar = true
		case c == '(' || c == ')':
			flush()
			toks = append(toks, string(c))
		case c == ' ' || c == '\n' || c == '\t' || c == '\r':
			flush()
		default:
			cur += string(c)
		}
	}
	flush()
	// parse into nested lists
	type node struct {
		atom string
		kids []*node
	}
	pos := 0
	var parse func() *node
	parse = func() *node {
		if pos >= len(toks) {
			return nil
		}
		t := toks[pos]
		pos++
		if t == "(" {
			n := &node{}
			for pos < len(toks) && toks[pos] != ")" {
				n.kids = append(n.kids, parse())
			}
			pos++
			return n
		}
		return &node{atom: t}
	}
	root := parse()
	if root == nil {
		return nil
	}
	var eval func(n *node) (int64, bool)
	eval = func(n *node) (int64, bool) {
		if n == nil {
			return 0, false
		}
		if n.kids == nil {
			switch n.atom {
			case "true":
				return 1, true
			case "false":
				return 0, true
			}
			v, err := strconv.ParseInt(n.atom, 10, 64)
			return v, err == nil
		}
		if len(n.kids) == 2 && n.kids[0].atom == "-" {
			v, ok := eval(n.kids[1])
			return -v, ok
		}
		return 0, false
	}
	var vals []int64
	for _, pair := range root.kids {
		if pair == nil || len(pair.kids) < 2 {
			return nil
		}
		v, ok := eval(pair.kids[len(pair.kids)-1])
		if !ok {
			return nil
		}
		vals = append(vals, v)
	}
	return vals
}

type modelDriver struct {
	bytesParam string // name of the []byte parameter
	recvType   string // receiver struct (scalar fields are injected), "" if none
	setup      string // Go statements creating the receiver `r` (and whatever it needs)
	call       string // Go statement calling the function with `data`
}

var modelDrivers = map[string]modelDriver{
	"KCP.Input": {"data", "KCP", "r := NewKCP(1, func([]byte, int) {})",
		"r.Input(data, IKCP_PACKET_REGULAR, false)"},
	"fecDecoder.decode": {"in", "fecDecoder", "r := newFECDecoder(3, 2)",
		"r.decode(fecPacket(data))"},
	"UDPSession.kcpInput": {"data", "", "pc, _ := net.ListenPacket(\"udp\", \"127.0.0.1:0\")\n\tdefer pc.Close()\n\tr, _ := NewConn4(1, &net.UDPAddr{IP: net.IPv4(127, 0, 0, 1), Port: 9}, nil, 3, 2, true, pc)\n\tdefer r.Close()",
		"r.kcpInput(data)"},
	"Listener.packetInput": {"data", "", "pc, _ := net.ListenPacket(\"udp\", \"127.0.0.1:0\")\n\tr, _ := ServeConn(nil, 3, 2, pc)\n\tdefer r.Close()",
		"r.packetInput(data, &net.UDPAddr{IP: net.IPv4(127, 0, 0, 1), Port: 9})\n\tr.packetInput(append([]byte(nil), data...), &net.UDPAddr{IP: net.IPv4(127, 0, 0, 1), Port: 9})"},
}

// modelReplayTest builds the replay test for a failed obligation of one of the driver functions.
var quantMemo = map[*Term]bool{}

func hasQuant(t *Term) bool {
	if v, ok := quantMemo[t]; ok {
		return v
	}
	r := t.Op == OpForall || t.Op == OpExists
	if !r {
		for _, a := range t.Args {
			if hasQuant(a) {
				r = true
				break
			}
		}
	}
	quantMemo[t] = r
	return r
}

func modelReplayTest(env *Env, u *Unit, o *Oblig) (string, bool) {
	if u == nil || o.Result == "unsat" {
		return "", false
	}
	key := strings.SplitN(o.Fn, "[", 2)[0]
	drv, ok := modelDrivers[key]
	if !ok {
		return "", false
	}
	fn := env.funcs[key]
	if fn == nil {
		return "", false
	}
	var bp *ssa.Parameter
	var recv *ssa.Parameter
	for i, p := range fn.Params {
		if p.Name() == drv.bytesParam {
			bp = p
		}
		if i == 0 && fn.Signature.Recv() != nil {
			recv = p
		}
	}
	if bp == nil {
		return "", false
	}
	data := mkVar("p."+bp.Name(), sortSlice)
	bt := types.Universe.Lookup("byte").Type()
	hn, so := env.te.elemHeap(bt)
	h0 := mkVar(hn+"@0", so)
	// Inside a loop the failing instruction works on the loop-head version of the slice (a
	// suffix of the datagram) and of the byte heap: a datagram consisting of just that suffix
	// drives the first iteration into the same state. Take the (heap, slice) pair the path
	// condition and the goal actually read bytes through.
	type pair struct{ h, d *Term }
	count := map[pair]int{}
	seen := map[*Term]bool{}
	var walk func(t *Term)
	walk = func(t *Term) {
		if seen[t] {
			return
		}
		seen[t] = true
		if t.Op == OpSelect && t.Args[0].Op == OpSelect && t.Args[0].Args[0].Op == OpVar && t.Args[0].Args[0].Sort == so {
			r := t.Args[0].Args[1]
			if r.Op == OpSel && len(r.Args) == 1 && r.Args[0].Op == OpVar && r.Args[0].Sort == sortSlice && strings.Contains(r.Args[0].Name, bp.Name()) {
				count[pair{t.Args[0].Args[0], r.Args[0]}]++
			}
		}
		for _, a := range t.Args {
			walk(a)
		}
	}
	walk(o.PC)
	walk(o.Goal)
	best := 0
	for p, c := range count {
		if c > best || (c == best && p.d.Name > data.Name) {
			best, data, h0 = c, p.d, p.h
		}
	}
	hdr, ok := getValues(u, o, []*Term{sliceRef(data), sliceOff(data), sliceLen(data)}, nil)
	if !ok || hdr[2] < 0 || hdr[2] > 65536 {
		return "", false
	}
	n := int(hdr[2])
	var terms []*Term
	var ranges []*Term // typing facts of the queried values (the quantified ones were dropped)
	for k := 0; k < n; k++ {
		b := mkSelect(mkSelect(h0, mkInt(hdr[0])), mkInt(hdr[1]+int64(k)))
		terms = append(terms, b)
		ranges = append(ranges, mkLe(mkInt(0), b), mkLe(b, mkInt(255)))
	}
	// scalar fields of the receiver
	type fld struct {
		name string
		typ  string
	}
	var flds []fld
	if drv.recvType != "" && recv != nil {
		if st := structOf(derefType(recv.Type())); st != nil {
			r := mkVar("p."+recv.Name(), sortInt)
			for i := 0; i < st.NumFields(); i++ {
				f := st.Field(i)
				b, isB := f.Type().Underlying().(*types.Basic)
				if !isB || b.Info()&(types.IsInteger|types.IsBoolean) == 0 {
					continue
				}
				fnm, fso := env.te.fieldHeap(derefType(recv.Type()), i)
				if fso.Elem != sortInt && fso.Elem != sortBool {
					continue
				}
				ft := mkSelect(mkVar(fnm+"@0", fso), r)
				terms = append(terms, ft)
				if fso.Elem == sortInt {
					if tf := env.te.typeFacts(f.Type(), ft, mkInt(0), 0); tf != nil && !hasQuant(tf) {
						ranges = append(ranges, tf)
					}
				}
				flds = append(flds, fld{f.Name(), types.TypeString(f.Type(), func(*types.Package) string { return "" })})
			}
		}
	}
	// the header values are pinned so that the second model agrees with the first
	pin := mkAnd(mkEq(sliceRef(data), mkInt(hdr[0])), mkEq(sliceOff(data), mkInt(hdr[1])), mkEq(sliceLen(data), mkInt(hdr[2])))
	o2 := *o
	o2.PC = mkAnd(o.PC, pin)
	vals, ok := getValues(u, &o2, terms, ranges)
	if !ok {
		return "", false
	}
	var bs []string
	for k := 0; k < n; k++ {
		bs = append(bs, strconv.Itoa(int(vals[k]&255)))
	}
	var sets []string
	for k, f := range flds {
		v := vals[n+k]
		if strings.Contains(f.typ, "bool") {
			sets = append(sets, fmt.Sprintf("r.%s = %v", f.name, v != 0))
		} else {
			sets = append(sets, fmt.Sprintf("r.%s = %s(%d)", f.name, f.typ, v))
		}
	}
	sort.Strings(sets)
	src := fmt.Sprintf(`package kcp

import (
	"net"
	"testing"
)

var _ = net.IPv4

// datagram and receiver fields taken from the solver's counterexample for
// %s
func TestVerifReplay(t *testing.T) {
	data := []byte{%s}
	%s
	%s
	defer func() {
		if p := recover(); p != nil {
			t.Fatalf("REPLAY-REPRODUCED: the real code panics on the counterexample datagram (%%d bytes): %%v", len(data), p)
		}
	}()
	%s
}
`, strings.ReplaceAll(o.Name, "\n", " "), strings.Join(bs, ", "), drv.setup, strings.Join(sets, "\n\t"), drv.call)
	return src, true
}

// ringReplayTest (C20): the layout of the counterexample (head, tail, number of slots) and the
// integer argument are taken from the model; a generated test builds that ring over ints (live
// slots hold distinct values, vacated slots zero), runs the real method and compares result and
// resulting contents with a plain-slice FIFO oracle written in the test.
func ringReplayTest(env *Env, u *Unit, o *Oblig) (string, bool) {
	if u == nil || o.Result == "unsat" || !strings.HasPrefix(o.Fn, "RingBuffer.") {
		return "", false
	}
	method := strings.TrimPrefix(strings.SplitN(o.Fn, "[", 2)[0], "RingBuffer.")
	fn := env.funcs["RingBuffer."+method]
	if fn == nil || len(fn.Params) == 0 {
		return "", false
	}
	recv := fn.Params[0]
	rt := derefType(recv.Type())
	st := structOf(rt)
	if st == nil {
		return "", false
	}
	r := mkVar("p."+recv.Name(), sortInt)
	var terms []*Term
	for i := 0; i < st.NumFields(); i++ {
		fnm, fso := env.te.fieldHeap(rt, i)
		v := mkSelect(mkVar(fnm+"@0", fso), r)
		switch st.Field(i).Name() {
		case "head", "tail":
			terms = append(terms, v)
		case "elements":
			terms = append(terms, sliceLen(v))
		}
	}
	if len(terms) != 3 {
		return "", false
	}
	arg := int64(0)
	hasArg := false
	if len(fn.Params) > 1 {
		if b, ok := fn.Params[1].Type().Underlying().(*types.Basic); ok && b.Info()&types.IsInteger != 0 {
			terms = append(terms, mkVar("p."+fn.Params[1].Name(), sortInt))
			hasArg = true
		}
	}
	vals, ok := getValues(u, o, terms, nil)
	if !ok {
		return "", false
	}
	head, tail, n := vals[0], vals[1], vals[2]
	if hasArg {
		arg = vals[3]
	}
	if n <= 0 || n > 4096 || head < 0 || head >= n || tail < 0 || tail >= n {
		return "", false
	}
	return fmt.Sprintf(ringReplayTmpl, o.Name, method, head, tail, n, arg), true
}

const ringReplayTmpl = `package kcp

import (
	"fmt"
	"testing"
)

// layout and argument taken from the solver's counterexample for
// %s
func TestVerifReplay(t *testing.T) {
	method, head, tail, n, arg := %q, %d, %d, %d, %d
	r := &RingBuffer[int]{head: head, tail: tail, elements: make([]int, n)}
	var model []int
	for i, k := head, 0; i != tail; i, k = (i+1)%%n, k+1 {
		r.elements[i] = 100 + k
		model = append(model, 100+k)
	}
	contents := func() []int {
		var out []int
		for i := r.head; i != r.tail; i = (i + 1) %% len(r.elements) {
			out = append(out, r.elements[i])
		}
		return out
	}
	fail := func(f string, a ...any) {
		t.Fatalf("REPLAY-REPRODUCED: RingBuffer.%%s on layout head=%%d tail=%%d slots=%%d arg=%%d: %%s", method, head, tail, n, arg, fmt.Sprintf(f, a...))
	}
	defer func() {
		if p := recover(); p != nil {
			fail("panic: %%v", p)
		}
	}()
	want := append([]int(nil), model...)
	switch method {
	case "Len":
		if g := r.Len(); g != len(model) {
			fail("Len() = %%d, want %%d", g, len(model))
		}
	case "IsEmpty":
		if g := r.IsEmpty(); g != (len(model) == 0) {
			fail("IsEmpty() = %%v", g)
		}
	case "IsFull":
		if g := r.IsFull(); g != (len(model) == n-1) {
			fail("IsFull() = %%v with %%d of %%d slots used", g, len(model), n)
		}
	case "Push":
		r.Push(7)
		want = append(want, 7)
	case "Pop":
		v, ok := r.Pop()
		if len(model) == 0 {
			if ok {
				fail("Pop on an empty ring returned ok")
			}
		} else {
			if !ok || v != model[0] {
				fail("Pop() = %%d,%%v want %%d", v, ok, model[0])
			}
			want = want[1:]
		}
	case "Peek":
		p, ok := r.Peek()
		if ok != (len(model) > 0) || (ok && *p != model[0]) {
			fail("Peek() wrong")
		}
	case "Discard":
		k := arg
		if k < 0 {
			t.Skip("negative argument is outside the precondition")
		}
		if k > len(model) {
			k = len(model)
		}
		if g := r.Discard(arg); g != k {
			fail("Discard(%%d) = %%d, want %%d", arg, g, k)
		}
		want = want[k:]
	case "Clear":
		r.Clear()
		want = nil
	case "ForEach":
		var seen []int
		r.ForEach(func(p *int) bool { seen = append(seen, *p); return true })
		if fmt.Sprint(seen) != fmt.Sprint(model) {
			fail("ForEach visited %%v, want %%v", seen, model)
		}
	case "ForEachReverse":
		var seen []int
		r.ForEachReverse(func(p *int) bool { seen = append(seen, *p); return true })
		var rev []int
		for i := len(model) - 1; i >= 0; i-- {
			rev = append(rev, model[i])
		}
		if fmt.Sprint(seen) != fmt.Sprint(rev) {
			fail("ForEachReverse visited %%v, want %%v", seen, rev)
		}
	default:
		t.Skip("no oracle for " + method)
	}
	if got := contents(); fmt.Sprint(got) != fmt.Sprint(want) {
		fail("contents afterwards %%v, want %%v", got, want)
	}
	// vacated slots are zeroed (no stale references)
	live := map[int]bool{}
	for i := r.head; i != r.tail; i = (i + 1) %% len(r.elements) {
		live[i] = true
	}
	for i, v := range r.elements {
		if !live[i] && v != 0 {
			fail("slot %%d is vacant but still holds %%d", i, v)
		}
	}
}
`
