package main

// C08: proof by instantiation of the CFB functions over every packet length.

import (
	"fmt"
)

type cfbCase struct {
	fn      string
	bs      int
	n       int
	inplace bool
}

func cfbInstance(env *Env, c cfbCase) *Instance {
	n := int64(c.n)
	src := mkSlice(mkInt(1000), mkInt(0), mkInt(n), mkInt(n))
	dst := src
	if !c.inplace {
		dst = mkSlice(mkInt(1001), mkInt(0), mkInt(n), mkInt(n))
	}
	bufLen := int64(2 * c.bs)
	buf := mkSlice(mkInt(1002), mkInt(0), mkInt(bufLen), mkInt(bufLen))
	iv := mkSlice(mkInt(1003), mkInt(0), mkInt(16), mkInt(16))
	mode := "out-of-place"
	if c.inplace {
		mode = "in-place"
	}
	if c.bs == 0 {
		// stream / xor / none ciphers: methods on a (symbolic) receiver
		inst := &Instance{
			Label:  fmt.Sprintf("len=%d,%s", c.n, mode),
			Params: map[string]*Term{"dst": dst, "src": src},
			Objlen: map[int64]int64{1000: n, 1001: n, 1004: 1500},
		}
		if c.fn == "simpleXORBlockCrypt.Encrypt" || c.fn == "simpleXORBlockCrypt.Decrypt" {
			// NewSimpleXORBlockCrypt: xortbl = pbkdf2.Key(..., mtuLimit, ...), mtuLimit bytes
			inst.Fields = map[string]*Term{"F:simpleXORBlockCrypt.xortbl": mkSlice(mkInt(1004), mkInt(0), mkInt(1500), mkInt(1500))}
		}
		return inst
	}
	return &Instance{
		Label:   fmt.Sprintf("len=%d,%s", c.n, mode),
		Params:  map[string]*Term{"dst": dst, "src": src, "buf": buf, "block": mkCtor(sortIface, mkInt(999), mkVar("p.block.val", sortInt))},
		Globals: map[string]*Term{"initialVector": iv},
		Objlen:  map[int64]int64{1000: n, 1001: n, 1002: bufLen, 1003: 16},
		BS:      c.bs,
	}
}

// cfbCases: quick = every length for the session's configuration (16-byte blocks, in place)
// plus every length class (group count 0/1/max, 0..7 leftover blocks, every tail length) for the
// other combinations; thorough = every length 0..1500 for all four functions and both modes.
func cfbCases(tier string) []cfbCase {
	var out []cfbCase
	fns := []struct {
		name string
		bs   int
	}{{"encrypt16", 16}, {"decrypt16", 16}, {"encrypt8", 8}, {"decrypt8", 8}}
	for _, f := range fns {
		for _, inplace := range []bool{true, false} {
			for n := 0; n <= 1500; n++ {
				full := tier == "thorough" || (f.bs == 16 && inplace)
				if !full {
					blocks := n / f.bs
					groups, left := blocks/8, blocks%8
					_ = left
					maxGroups := (1500 / f.bs) / 8
					if !(groups == 0 || groups == 1 || groups == maxGroups) {
						continue
					}
				}
				out = append(out, cfbCase{f.name, f.bs, n, inplace})
			}
		}
	}
	for _, fn := range []string{"salsa20BlockCrypt.Encrypt", "salsa20BlockCrypt.Decrypt", "simpleXORBlockCrypt.Encrypt",
		"simpleXORBlockCrypt.Decrypt", "noneBlockCrypt.Encrypt", "noneBlockCrypt.Decrypt"} {
		for _, inplace := range []bool{true, false} {
			for n := 0; n <= 1500; n++ {
				// these functions have three length classes (0, below the salsa nonce, the rest):
				// quick samples every length up to 64 and a few long ones, thorough takes all
				if tier != "thorough" && n > 64 && n != 100 && n != 1000 && n != 1499 && n != 1500 {
					continue
				}
				out = append(out, cfbCase{fn, 0, n, inplace})
			}
		}
	}
	return out
}

// verifyCFB runs all cases; obligations that the simplifier discharges are only counted.
func verifyCFB(env *Env, tier string) (units []*Unit, cases int, trivial int) {
	for _, c := range cfbCases(tier) {
		fn := env.funcs[c.fn]
		if fn == nil {
			continue
		}
		u := verifyUnit(env, c.fn, fn, UnitOpts{Inst: cfbInstance(env, c)})
		cases++
		// keep only what needs a solver (or failed generation)
		var keep []*Oblig
		for _, o := range u.Obligs {
			if o.Trivial {
				trivial++
				continue
			}
			keep = append(keep, o)
		}
		u.Obligs = keep
		if len(keep) == 0 && len(u.Unsupported) == 0 {
			u.Assumes = nil
		}
		units = append(units, u)
	}
	return
}

type cfbShardResult struct {
	Cases      int       `json:"cases"`
	Trivial    int       `json:"trivial"`
	Solver     int       `json:"solver"`
	Discharged int       `json:"discharged"`
	Failed     []cfbFail `json:"failed"`
	Unsup      []string  `json:"unsupported"`
	Sample     []string  `json:"sample"`
}

type cfbFail struct {
	Name   string `json:"name"`
	Kind   string `json:"kind"`
	Pos    string `json:"pos"`
	Result string `json:"result"`
	Solver string `json:"solver"`
	Output string `json:"output"`
}

// runCFBShard verifies every shard-th case.
func runCFBShard(env *Env, tier string, shard, of int, cfg *SolverCfg) *cfbShardResult {
	res := &cfbShardResult{}
	for i, c := range cfbCases(tier) {
		if i%of != shard {
			continue
		}
		fn := env.funcs[c.fn]
		if fn == nil {
			res.Unsup = append(res.Unsup, "missing function "+c.fn)
			continue
		}
		u := verifyUnit(env, c.fn, fn, UnitOpts{Inst: cfbInstance(env, c)})
		res.Cases++
		for _, m := range u.Unsupported {
			res.Unsup = append(res.Unsup, u.Key+": "+m)
		}
		var keep []*Oblig
		for _, o := range u.Obligs {
			if o.Cover {
				continue
			}
			if o.Trivial {
				res.Trivial++
				if len(res.Sample) < 2 && o.Kind == "ensures" {
					res.Sample = append(res.Sample, o.Name)
				}
				continue
			}
			keep = append(keep, o)
		}
		u.Obligs = keep
		if len(res.Failed) >= 6 {
			// already a violation: the remaining instances are not examined (and not counted)
			res.Cases--
			continue
		}
		// a handful of undischarged obligations is enough to report the violation: work in
		// chunks of four and stop at the first chunk with a failure
		for lo := 0; lo < len(keep); lo += 4 {
			hi := min(lo+4, len(keep))
			u.Obligs = keep[lo:hi]
			dischargeAll([]*Unit{u}, cfg, nil)
			bad := false
			for _, o := range keep[lo:hi] {
				res.Solver++
				if o.Result == "unsat" {
					res.Discharged++
				} else {
					bad = true
					res.Failed = append(res.Failed, cfbFail{o.Name, o.Kind, o.Pos, o.Result, o.Solver, truncate(o.Output, 1500)})
				}
			}
			if bad {
				break
			}
		}
		// free the terms of this instance
		if i%50 == 0 {
			resetTerms()
		}
	}
	return res
}
