package main

// Loading /repo, building SSA, indexing functions and source positions.

import (
	"bytes"
	"encoding/json"
	"fmt"
	"go/ast"
	"go/printer"
	"go/token"
	"go/types"
	"os"
	"path/filepath"
	"sort"
	"strings"

	"golang.org/x/tools/go/packages"
	"golang.org/x/tools/go/ssa"
	"golang.org/x/tools/go/ssa/ssautil"
)

var libDir = "/verif/lib"

// checkAxiomGlobals: package-level variables mentioned in axioms must only be assigned
// during package initialisation.
func (e *Env) checkAxiomGlobals() error {
	names := map[string]bool{}
	var walk func(x *CExpr)
	walk = func(x *CExpr) {
		if x == nil {
			return
		}
		if x.Kind == "id" {
			names[x.Name] = true
		}
		walk(x.X)
		walk(x.Y)
		walk(x.Z)
		for _, a := range x.Args {
			walk(a)
		}
	}
	for _, a := range e.con.Axioms {
		walk(a.Expr)
	}
	for fn := range ssaAllFunctions(e.prog, e.spkg) {
		if fn.Name() == "init" || strings.HasPrefix(fn.Name(), "init#") {
			continue
		}
		for _, b := range fn.Blocks {
			for _, in := range b.Instrs {
				if st, ok := in.(*ssa.Store); ok {
					if g, ok := st.Addr.(*ssa.Global); ok && names[g.Name()] {
						return fmt.Errorf("axiom mentions global %s, which is assigned in %s (not only during initialisation)", g.Name(), fn.Name())
					}
				}
			}
		}
	}
	return nil
}

// checkImmutable: fields declared immutable are assigned only inside declared constructors.
func (e *Env) checkImmutable() error {
	if len(e.con.Immutable) == 0 {
		return nil
	}
	for fn := range ssaAllFunctions(e.prog, e.spkg) {
		root := fn
		for root.Parent() != nil {
			root = root.Parent()
		}
		if e.con.Ctors[e.keyOf(root)] {
			continue
		}
		for _, b := range fn.Blocks {
			for _, in := range b.Instrs {
				st, ok := in.(*ssa.Store)
				if !ok {
					continue
				}
				fa, ok := st.Addr.(*ssa.FieldAddr)
				if !ok {
					continue
				}
				pt := derefType(fa.X.Type())
				sty := structOf(pt)
				if sty == nil {
					continue
				}
				k := e.te.namedKey(pt) + "." + sty.Field(fa.Field).Name()
				if e.con.Immutable[k] {
					return fmt.Errorf("field %s is declared immutable but assigned in %s (%s)", k, e.keyOf(fn), e.posStr(in.Pos()))
				}
			}
		}
	}
	return nil
}

type Env struct {
	loopMap map[string][]string // recorded loop headers per function key (see loopOrdinal)
	muHeaps []string
	repo    string
	fset    *token.FileSet
	pkg     *packages.Package
	prog    *ssa.Program
	spkg    *ssa.Package
	te      *TypeEnv
	con     *Contracts
	funcs   map[string]*ssa.Function // key -> function
	fnKey   map[*ssa.Function]string
	posIdx  map[*token.File]map[token.Pos][]ast.Node
	files   map[*token.File]*ast.File
}

func loadEnv(repo string) (*Env, error) {
	cfg := &packages.Config{Mode: packages.LoadAllSyntax, Dir: repo, BuildFlags: []string{"-tags=verif"},
		Env: append(os.Environ(), "GOFLAGS=-mod=mod", "GOPROXY=off")}
	pkgs, err := packages.Load(cfg, ".")
	if err != nil {
		return nil, err
	}
	if len(pkgs) != 1 {
		return nil, fmt.Errorf("expected one package, got %d", len(pkgs))
	}
	if len(pkgs[0].Errors) > 0 {
		var sb strings.Builder
		for _, e := range pkgs[0].Errors {
			sb.WriteString(e.Error() + "\n")
		}
		return nil, fmt.Errorf("package has errors:\n%s", sb.String())
	}
	prog, spkgs := ssautil.AllPackages(pkgs, ssa.NaiveForm|ssa.GlobalDebug)
	prog.Build()
	e := &Env{repo: repo, fset: pkgs[0].Fset, pkg: pkgs[0], prog: prog, spkg: spkgs[0],
		funcs: map[string]*ssa.Function{}, fnKey: map[*ssa.Function]string{},
		posIdx: map[*token.File]map[token.Pos][]ast.Node{}, files: map[*token.File]*ast.File{}}
	e.te = newTypeEnv(pkgs[0].Types)
	e.te.classify(prog, e.spkg)
	for fn := range ssaAllFunctions(prog, e.spkg) {
		k := e.keyOf(fn)
		if k == "" {
			continue
		}
		if o, dup := e.funcs[k]; dup && o != fn {
			continue
		}
		e.funcs[k] = fn
		e.fnKey[fn] = k
	}
	for _, f := range pkgs[0].Syntax {
		e.files[e.fset.File(f.Pos())] = f
	}
	e.con = newContracts()
	libs, _ := filepath.Glob(filepath.Join(libDir, "*.spec"))
	sort.Strings(libs)
	for _, l := range libs {
		if err := loadContracts(e.con, l); err != nil {
			return nil, err
		}
	}
	cpath := filepath.Join(repo, "verif_contracts.go")
	if _, err := os.Stat(cpath); err == nil {
		if err := loadContracts(e.con, cpath); err != nil {
			return nil, err
		}
	}
	if err := e.checkAxiomGlobals(); err != nil {
		return nil, err
	}
	if err := e.checkImmutable(); err != nil {
		return nil, err
	}
	e.loadLoopMap("/verif/loopmap.json")
	return e, nil
}

// keyOf gives the contract key of a function: "RingBuffer.Push", "NewKCP", "KCP.flush$1".
func (e *Env) keyOf(fn *ssa.Function) string {
	if k, ok := e.fnKey[fn]; ok {
		return k
	}
	if o := fn.Origin(); o != nil && o != fn {
		fn = o
	}
	if fn.Parent() != nil {
		pk := e.keyOf(fn.Parent())
		name := fn.Name()
		if i := strings.LastIndex(name, "$"); i >= 0 {
			return pk + name[i:]
		}
		return pk + "$" + name
	}
	name := fn.Name()
	if fn.Signature != nil && fn.Signature.Recv() != nil {
		rt := fn.Signature.Recv().Type()
		if p := derefType(rt); p != nil {
			rt = p
		}
		rk := e.te.namedKey(rt)
		if rk == "" {
			rk = e.te.typeStr(rt)
		}
		return rk + "." + name
	}
	if fn.Pkg != nil && fn.Pkg != e.spkg {
		return fn.Pkg.Pkg.Path() + "." + name
	}
	if fn.Pkg == nil && fn.Object() != nil && fn.Object().Pkg() != nil && fn.Object().Pkg() != e.spkg.Pkg {
		return fn.Object().Pkg().Path() + "." + name
	}
	return name
}

// fullName is used for library dispatch: "sync/atomic.AddUint64", "(*sync.Mutex).Lock".
func fullName(fn *ssa.Function) string {
	if o := fn.Origin(); o != nil {
		fn = o
	}
	if fn.Signature != nil && fn.Signature.Recv() != nil {
		rt := fn.Signature.Recv().Type()
		return "(" + types.TypeString(rt, nil) + ")." + fn.Name()
	}
	if fn.Pkg != nil {
		return fn.Pkg.Pkg.Path() + "." + fn.Name()
	}
	if fn.Object() != nil && fn.Object().Pkg() != nil {
		return fn.Object().Pkg().Path() + "." + fn.Name()
	}
	return fn.Name()
}

func (e *Env) indexFile(tf *token.File) map[token.Pos][]ast.Node {
	if m, ok := e.posIdx[tf]; ok {
		return m
	}
	m := map[token.Pos][]ast.Node{}
	f := e.files[tf]
	if f != nil {
		ast.Inspect(f, func(n ast.Node) bool {
			if n == nil {
				return true
			}
			var p token.Pos
			switch x := n.(type) {
			case *ast.IndexExpr:
				p = x.Lbrack
			case *ast.SliceExpr:
				p = x.Lbrack
			case *ast.BinaryExpr:
				p = x.OpPos
			case *ast.SelectorExpr:
				p = x.Sel.Pos()
			case *ast.StarExpr:
				p = x.Star
			case *ast.CallExpr:
				p = x.Lparen
			case *ast.TypeAssertExpr:
				p = x.Lparen
			case *ast.UnaryExpr:
				p = x.OpPos
			case *ast.AssignStmt:
				p = x.TokPos
			case *ast.IncDecStmt:
				p = x.TokPos
			case *ast.RangeStmt:
				p = x.For
			case *ast.Ident:
				p = x.Pos()
			default:
				return true
			}
			m[p] = append(m[p], n)
			return true
		})
	}
	e.posIdx[tf] = m
	return m
}

func (e *Env) nodeText(n ast.Node) string {
	var buf bytes.Buffer
	printer.Fprint(&buf, e.fset, n)
	s := strings.Join(strings.Fields(buf.String()), " ")
	if len(s) > 80 {
		s = s[:80]
	}
	return s
}

// srcAt returns a short source text for the instruction at pos.
func (e *Env) srcAt(pos token.Pos) string {
	if !pos.IsValid() {
		return "?"
	}
	tf := e.fset.File(pos)
	if tf == nil {
		return "?"
	}
	idx := e.indexFile(tf)
	ns := idx[pos]
	if len(ns) == 0 {
		return "?"
	}
	// prefer the largest non-ident node
	best := ns[0]
	for _, n := range ns {
		if _, isId := best.(*ast.Ident); isId {
			best = n
		}
	}
	return e.nodeText(best)
}

func (e *Env) posStr(pos token.Pos) string {
	if !pos.IsValid() {
		return ""
	}
	p := e.fset.Position(pos)
	return fmt.Sprintf("%s:%d", filepath.Base(p.Filename), p.Line)
}

// loopStmts lists ForStmt/RangeStmt nodes of the declaration enclosing fn in source order
// (nested function literals excluded, range-over-func bodies included).
func (e *Env) loopStmts(fn *ssa.Function) []ast.Node {
	root := fn
	for root.Parent() != nil {
		if _, isRange := root.Syntax().(*ast.RangeStmt); isRange {
			root = root.Parent()
		} else {
			break
		}
	}
	syn := root.Syntax()
	if syn == nil {
		return nil
	}
	var out []ast.Node
	var body ast.Node
	switch s := syn.(type) {
	case *ast.FuncDecl:
		body = s.Body
	case *ast.FuncLit:
		body = s.Body
	default:
		body = syn
	}
	if body == nil {
		return nil
	}
	ast.Inspect(body, func(n ast.Node) bool {
		switch n.(type) {
		case *ast.FuncLit:
			return n == syn
		case *ast.ForStmt, *ast.RangeStmt:
			out = append(out, n)
		}
		return true
	})
	sort.Slice(out, func(i, j int) bool { return out[i].Pos() < out[j].Pos() })
	return out
}

// loopHeader: the loop statement's header as normalised text (without its body).
func (e *Env) loopHeader(n ast.Node) string {
	var buf bytes.Buffer
	switch l := n.(type) {
	case *ast.ForStmt:
		c := *l
		c.Body = &ast.BlockStmt{}
		printer.Fprint(&buf, e.fset, &c)
	case *ast.RangeStmt:
		c := *l
		c.Body = &ast.BlockStmt{}
		printer.Fprint(&buf, e.fset, &c)
	}
	return strings.Join(strings.Fields(buf.String()), " ")
}

// loopOrdinal: the ordinal the contract uses for loop n of fn. Normally the position of the loop
// among the function's loops. If the NUMBER of loops differs from the recorded loop map
// (/verif/loopmap.json, written from the unchanged tree), loops are matched to the recorded ones
// by their header text (longest common subsequence): a removed loop's invariants are dropped
// (fewer assumptions: sound), a loop without a recorded counterpart gets ordinal -1 and the unit
// is reported as unbound.
func (e *Env) loopOrdinal(fn *ssa.Function, n ast.Node) int {
	loops := e.loopStmts(fn)
	idx := -1
	for i, l := range loops {
		if l == n {
			idx = i
		}
	}
	if idx < 0 {
		return 0
	}
	rec := e.loopMap[e.keyOf(rootFn(fn))]
	if rec == nil || len(rec) == len(loops) {
		return idx + 1
	}
	cur := make([]string, len(loops))
	for i, l := range loops {
		cur[i] = e.loopHeader(l)
	}
	// LCS table
	m, k := len(cur), len(rec)
	t := make([][]int, m+1)
	for i := range t {
		t[i] = make([]int, k+1)
	}
	for i := m - 1; i >= 0; i-- {
		for j := k - 1; j >= 0; j-- {
			if cur[i] == rec[j] {
				t[i][j] = t[i+1][j+1] + 1
			} else if t[i+1][j] >= t[i][j+1] {
				t[i][j] = t[i+1][j]
			} else {
				t[i][j] = t[i][j+1]
			}
		}
	}
	i, j := 0, 0
	for i < m && j < k {
		if cur[i] == rec[j] {
			if i == idx {
				return j + 1
			}
			i++
			j++
		} else if t[i+1][j] >= t[i][j+1] {
			if i == idx {
				return -1
			}
			i++
		} else {
			j++
		}
	}
	return -1
}

// loadLoopMap reads the recorded loop headers (function key -> header texts in order).
func (e *Env) loadLoopMap(path string) {
	b, err := os.ReadFile(path)
	if err != nil {
		return
	}
	m := map[string][]string{}
	if json.Unmarshal(b, &m) == nil {
		e.loopMap = m
	}
}

// currentLoopMap: the loop headers of every function that has loop clauses in its contract.
func (e *Env) currentLoopMap() map[string][]string {
	out := map[string][]string{}
	for key, con := range e.con.Funcs {
		if len(con.LoopInv) == 0 {
			continue
		}
		fn := e.funcs[key]
		if fn == nil {
			continue
		}
		var hs []string
		for _, l := range e.loopStmts(fn) {
			hs = append(hs, e.loopHeader(l))
		}
		out[key] = hs
	}
	return out
}

// rootFn: the function whose contract carries the loop clauses for fn.
func rootFn(fn *ssa.Function) *ssa.Function {
	for fn.Parent() != nil {
		if _, isRange := fn.Syntax().(*ast.RangeStmt); isRange {
			fn = fn.Parent()
		} else {
			break
		}
	}
	return fn
}
