package main

// C14: lock-guard discipline ("guarded_by" contracts), checked on the real code by the same
// symbolic executor that tracks held() flags. Every access to a field of a shared struct must be
// justified by its declared class:
//
//	immutable   written only by constructors (or on objects allocated in this unit)
//	guard M: f  the access happens while mutex M of the same object is held
//	guard M: *f the object f points to (and the objects it owns) is only used under M
//	guard M: f[] the elements of slice f are only accessed under M
//	confined F: ...   only code running in function F (one goroutine) touches it
//	atomic      only through sync/atomic (a plain access is an error)
//	sync types / channels: internally synchronised
//
// Anything else on a shared struct is an unclassified access and fails.

import (
	"fmt"
	"go/token"
	"go/types"
	"strings"
)

type guardClass struct {
	kind string   // "guard", "confined"
	mu   string   // "Struct.mutexField" for guard
	fns  []string // allowed top-level units for confined
}

type GuardSpec struct {
	Field  map[string]*guardClass // "Struct.f"
	Elems  map[string]*guardClass // "Struct.f" (slice contents)
	Owner  map[string]*guardClass // "Struct.f" (object behind the pointer)
	Shared map[string]bool        // struct names that must be fully classified
	Owned  map[string]bool        // struct names of owned sub-objects
}

func (c *Contracts) guardSpec() *GuardSpec {
	if c.gspec != nil {
		return c.gspec
	}
	g := &GuardSpec{Field: map[string]*guardClass{}, Elems: map[string]*guardClass{}, Owner: map[string]*guardClass{}, Shared: map[string]bool{}, Owned: map[string]bool{}}
	add := func(structName, tok string, cl *guardClass) {
		switch {
		case strings.HasPrefix(tok, "*"):
			g.Owner[structName+"."+tok[1:]] = cl
		case strings.HasSuffix(tok, "[]"):
			g.Elems[structName+"."+strings.TrimSuffix(tok, "[]")] = cl
		default:
			g.Field[structName+"."+tok] = cl
		}
	}
	for mu, fs := range c.Guards {
		sn := mu[:strings.Index(mu, ".")]
		for _, f := range fs {
			add(sn, f, &guardClass{kind: "guard", mu: mu})
		}
	}
	for _, cf := range c.Confined {
		for _, f := range cf.Fields {
			k := strings.Index(f, ".")
			add(f[:k], f[k+1:], &guardClass{kind: "confined", fns: cf.Funcs})
		}
	}
	for _, s := range c.SharedTypes {
		g.Shared[s] = true
	}
	for _, s := range c.OwnedTypes {
		g.Owned[s] = true
	}
	c.gspec = g
	return g
}

// heapOfSelect: for select(<heap F:X.f, possibly under stores>, o) returns ("X.f", o).
func heapOfSelect(t *Term) (string, *Term) {
	if t.Op != OpSelect {
		return "", nil
	}
	base := t.Args[0]
	for base.Op == OpStore {
		base = base.Args[0]
	}
	if base.Op != OpVar {
		return "", nil
	}
	// heap variables: F:Type.field@epoch, or havocked versions such as L1.F:Type.field!7
	n := strings.Trim(base.Name, "|")
	i := strings.Index(n, "F:")
	if i < 0 || (i > 0 && n[i-1] != '.') {
		return "", nil
	}
	n = n[i+2:]
	if i := strings.LastIndexAny(n, "@!"); i >= 0 {
		n = n[:i]
	}
	// strip generic arguments
	if i := strings.Index(n, "["); i >= 0 {
		if j := strings.LastIndex(n, "]"); j > i {
			n = n[:i] + n[j+1:]
		}
	}
	return n, t.Args[1]
}

// rootGuard walks from an object reference to the field that owns it.
// ok=false: the owner is unknown.
func (x *Exec) rootGuard(ref *Term) (cl *guardClass, owner *Term, ok bool) {
	g := x.env.con.guardSpec()
	t := ref
	// a reference that is either freshly allocated here or loaded from the field (lazy
	// initialisation): the non-fresh branch decides
	for t.Op == OpIte {
		if x.isFreshOrNil(t.Args[1]) {
			t = t.Args[2]
		} else if x.isFreshOrNil(t.Args[2]) {
			t = t.Args[1]
		} else {
			break
		}
	}
	for depth := 0; depth < 8; depth++ {
		if t.Op == OpSel && len(t.Args) == 1 && t.Args[0].Sort == sortSlice {
			t = t.Args[0]
			continue
		}
		key, o := heapOfSelect(t)
		if key == "" {
			return nil, nil, false
		}
		if c := g.Owner[key]; c != nil {
			return c, o, true
		}
		if c := g.Elems[key]; c != nil && t.Sort == sortSlice {
			return c, o, true
		}
		sn := key[:strings.Index(key, ".")]
		if g.Owned[sn] {
			t = o
			continue
		}
		return nil, nil, false
	}
	return nil, nil, false
}

func (x *Exec) isFreshOrNil(t *Term) bool {
	if x.freshRefs[t] || (isInt(t) && t.Val.Sign() == 0) {
		return true
	}
	if t.Op == OpIte {
		return x.isFreshOrNil(t.Args[1]) && x.isFreshOrNil(t.Args[2])
	}
	return false
}

func (x *Exec) topKey() string {
	if x.topFrame == nil {
		return ""
	}
	return x.env.keyOf(rootFn(x.topFrame.fn))
}

// inOwnedContext: the unit being verified is a method of an owned type (its callers hold the
// owner's guard: checked at their call sites).
func (x *Exec) inOwnedContext() bool {
	g := x.env.con.guardSpec()
	fn := rootFn(x.topFrame.fn)
	if fn.Signature.Recv() == nil {
		return false
	}
	rt := fn.Signature.Recv().Type()
	if p := derefType(rt); p != nil {
		rt = p
	}
	return g.Owned[x.env.te.namedKey(rt)]
}

func (x *Exec) guardHeld(st *State, mu string, ref *Term, write bool) *Term {
	h := mkSelect(st.H("ghost:held:"+mu, arraySort(sortInt, sortBool)), ref)
	if write {
		return h
	}
	// a read lock is enough for reading
	return mkOr(h, mkSelect(st.H("ghost:rheld:"+mu, arraySort(sortInt, sortBool)), ref))
}

// guardMap: lookups, stores, deletes and ranges on a map owned by a struct field (region).
func (x *Exec) guardMap(st *State, region string, m *Term, write bool, pos token.Pos) {
	if !x.guardMode || x.dry > 0 || x.topFrame == nil || region == "" {
		return
	}
	g := x.env.con.guardSpec()
	cl := g.Elems[region]
	if cl == nil {
		sn := region[:strings.Index(region, ".")]
		if g.Shared[sn] {
			x.assert(st, "guard", "map "+region+" of a shared struct has no declared guard", tFalse, pos, nil)
		}
		return
	}
	if g.Owned[region[:strings.Index(region, ".")]] && x.inOwnedContext() {
		return
	}
	_, o := heapOfSelect(m)
	if o == nil {
		x.assert(st, "guard", "map "+region+": owner object unknown ("+truncate(m.String(), 160)+")", tFalse, pos, nil)
		return
	}
	if x.freshRefs[o] {
		return
	}
	what := "lookup in map " + region
	if write {
		what = "update of map " + region
	}
	x.assertClassW(st, cl, o, what, write, pos)
}

func (x *Exec) assertClass(st *State, cl *guardClass, owner *Term, what string, pos token.Pos) {
	x.assertClassW(st, cl, owner, what, strings.Contains(what, "write") || strings.HasPrefix(what, "call") || strings.HasPrefix(what, "passing"), pos)
}

func (x *Exec) assertClassW(st *State, cl *guardClass, owner *Term, what string, write bool, pos token.Pos) {
	switch cl.kind {
	case "guard":
		x.assert(st, "guard", what+" requires "+cl.mu+" held", x.guardHeld(st, cl.mu, owner, write), pos, nil)
	case "confined":
		top := x.topKey()
		ok := x.env.con.Ctors[top]
		for _, f := range cl.fns {
			if f == top {
				ok = true
			}
		}
		if !ok {
			x.assert(st, "guard", fmt.Sprintf("%s is confined to %s but accessed in %s", what, strings.Join(cl.fns, ","), top), tFalse, pos, nil)
		}
	}
}

func isSyncType(t types.Type) bool {
	t = types.Unalias(t)
	if _, ok := t.Underlying().(*types.Chan); ok {
		return false // reading the channel variable itself is a plain read: must be immutable
	}
	if n, ok := t.(*types.Named); ok && n.Obj().Pkg() != nil {
		switch n.Obj().Pkg().Path() {
		case "sync", "sync/atomic":
			return true
		}
	}
	return false
}

// guardAccess is called for every Go-level load/store through p.
func (x *Exec) guardAccess(st *State, p *PtrVal, write bool, pos token.Pos) {
	if !x.guardMode || x.dry > 0 || x.topFrame == nil {
		return
	}
	g := x.env.con.guardSpec()
	switch p.Base {
	case PGlobal:
		if write && !x.env.con.Ctors[x.topKey()] && rootFn(x.topFrame.fn).Name() != "init" {
			x.assert(st, "guard", "write of package variable "+p.Glob.Name()+" outside init/configuration functions", tFalse, pos, nil)
		}
	case PObj:
		if len(p.Path) == 0 || p.Path[0].IsIdx {
			return
		}
		sn := x.env.te.namedKey(p.BTyp)
		if sn == "" {
			return
		}
		if x.freshRefs[p.Ref] {
			return // allocated by this unit: not yet visible to other goroutines
		}
		sty := structOf(p.BTyp)
		fld := sty.Field(p.Path[0].Field)
		key := sn + "." + fld.Name()
		what := "read of " + key
		if write {
			what = "write of " + key
		}
		if g.Owned[sn] {
			if x.inOwnedContext() {
				return
			}
			if x.env.con.Immutable[key] && !write {
				return
			}
			cl, owner, ok := x.rootGuard(p.Ref)
			if !ok {
				x.assert(st, "guard", what+": owner of the "+sn+" object unknown", tFalse, pos, nil)
				return
			}
			x.assertClass(st, cl, owner, what, pos)
			return
		}
		if !g.Shared[sn] {
			return
		}
		if x.env.con.Immutable[key] {
			if write && !x.env.con.Ctors[x.topKey()] {
				x.assert(st, "guard", what+": immutable field written outside a constructor", tFalse, pos, nil)
			}
			return
		}
		if x.env.con.Atomic[key] || x.env.con.Atomic[sn+".*"] {
			if x.inAtomic > 0 {
				return // the access is the sync/atomic operation itself
			}
			x.assert(st, "guard", what+": plain access to a field that is otherwise accessed with sync/atomic", tFalse, pos, nil)
			return
		}
		if isSyncType(fld.Type()) {
			return
		}
		if cl := g.Field[key]; cl != nil {
			x.assertClass(st, cl, p.Ref, what, pos)
			return
		}
		x.assert(st, "guard", what+": field of shared struct "+sn+" has no declared guard/immutable/atomic/confined class", tFalse, pos, nil)
	case PElem:
		cl, owner, ok := x.rootGuard(p.Ref)
		if !ok {
			return // not reached through a field of a shared object: local or transferred buffer
		}
		if x.inOwnedContext() {
			return
		}
		what := "element read"
		if write {
			what = "element write"
		}
		x.assertClass(st, cl, owner, what+" of guarded slice", pos)
	}
}

// guardCall: receivers of owned types and guarded slices passed as arguments.
func (x *Exec) guardCall(st *State, key string, args []Val, recvOwned bool, pos token.Pos) {
	if !x.guardMode || x.dry > 0 || x.topFrame == nil || x.inOwnedContext() {
		return
	}
	for i, a := range args {
		switch v := a.(type) {
		case *PtrVal:
			if i == 0 && recvOwned && v.Base == PObj && len(v.Path) == 0 && !x.freshRefs[v.Ref] {
				cl, owner, ok := x.rootGuard(v.Ref)
				if !ok {
					x.assert(st, "guard", "call of "+key+": owner of the receiver unknown ("+truncate(v.Ref.String(), 160)+")", tFalse, pos, nil)
				} else {
					x.assertClass(st, cl, owner, "call of "+key, pos)
				}
			}
		case *Term:
			if v.Sort == sortSlice {
				if k, o := heapOfSelect(v); k != "" {
					if cl := x.env.con.guardSpec().Elems[k]; cl != nil {
						x.assertClass(st, cl, o, "passing guarded slice "+k+" to "+key, pos)
					}
				}
			}
			if v.Sort == sortIface {
				// an object kept in an interface-typed field declared `guard M: *f`
				if k, o := heapOfSelect(v); k != "" {
					if cl := x.env.con.guardSpec().Owner[k]; cl != nil && !x.freshRefs[o] {
						x.assertClass(st, cl, o, "passing the guarded object in "+k+" to "+key, pos)
					}
				}
			}
		}
	}
}

// mutexHeaps: the held / read-held flag heaps of every mutex field of the package's structs.
func (env *Env) mutexHeaps() []string {
	if env.muHeaps != nil {
		return env.muHeaps
	}
	scope := env.pkg.Types.Scope()
	out := []string{}
	for _, n := range scope.Names() {
		tn, ok := scope.Lookup(n).(*types.TypeName)
		if !ok {
			continue
		}
		st, ok := tn.Type().Underlying().(*types.Struct)
		if !ok {
			continue
		}
		for i := 0; i < st.NumFields(); i++ {
			f := st.Field(i)
			if nt, ok := types.Unalias(f.Type()).(*types.Named); ok && nt.Obj().Pkg() != nil && nt.Obj().Pkg().Path() == "sync" {
				switch nt.Obj().Name() {
				case "Mutex":
					out = append(out, "ghost:held:"+n+"."+f.Name())
				case "RWMutex":
					out = append(out, "ghost:held:"+n+"."+f.Name(), "ghost:rheld:"+n+"."+f.Name())
				}
			}
		}
	}
	env.muHeaps = out
	return out
}
