package main

// Contract expression language: lexer and Pratt parser.

import (
	"fmt"
	"math/big"
	"strings"
)

type CVarDecl struct {
	Name string
	Type string
}

type CExpr struct {
	Kind string // int bool nil id un bin cond field call mcall index slice quant
	Op   string
	Name string
	Val  *big.Int
	X    *CExpr
	Y    *CExpr
	Z    *CExpr
	Args []*CExpr
	Vars []CVarDecl
}

func (e *CExpr) String() string {
	if e == nil {
		return ""
	}
	switch e.Kind {
	case "int":
		return e.Val.String()
	case "bool", "id":
		return e.Name
	case "nil":
		return "nil"
	case "un":
		return e.Op + e.X.String()
	case "bin":
		return "(" + e.X.String() + " " + e.Op + " " + e.Y.String() + ")"
	case "cond":
		return "(" + e.X.String() + " ? " + e.Y.String() + " : " + e.Z.String() + ")"
	case "field":
		return e.X.String() + "." + e.Name
	case "call":
		return e.Name + "(" + joinExprs(e.Args) + ")"
	case "mcall":
		return e.X.String() + "." + e.Name + "(" + joinExprs(e.Args) + ")"
	case "index":
		return e.X.String() + "[" + e.Y.String() + "]"
	case "slice":
		return e.X.String() + "[" + e.Y.String() + ":" + e.Z.String() + "]"
	case "quant":
		var vs []string
		for _, v := range e.Vars {
			vs = append(vs, v.Name+" "+v.Type)
		}
		return "(" + e.Op + " " + strings.Join(vs, ", ") + " :: " + e.X.String() + ")"
	}
	return "?"
}

func joinExprs(as []*CExpr) string {
	var s []string
	for _, a := range as {
		s = append(s, a.String())
	}
	return strings.Join(s, ", ")
}

type ctok struct {
	kind string // int id op eof
	text string
	pos  int
}

func clex(src string) ([]ctok, error) {
	var out []ctok
	i := 0
	ops := []string{"<==>", "==>", "&&", "||", "==", "!=", "<=", ">=", "<<", ">>", "&^", "::", "+", "-", "*", "/", "%", "&", "|", "^", "<", ">", "!", "(", ")", "[", "]", ",", ".", "?", ":"}
	for i < len(src) {
		c := src[i]
		if c == ' ' || c == '\t' || c == '\n' {
			i++
			continue
		}
		if c >= '0' && c <= '9' {
			j := i
			if c == '0' && i+1 < len(src) && (src[i+1] == 'x' || src[i+1] == 'X') {
				j = i + 2
				for j < len(src) && strings.ContainsRune("0123456789abcdefABCDEF_", rune(src[j])) {
					j++
				}
			} else {
				for j < len(src) && (src[j] >= '0' && src[j] <= '9' || src[j] == '_') {
					j++
				}
			}
			out = append(out, ctok{"int", src[i:j], i})
			i = j
			continue
		}
		if c == '_' || c == '$' || c >= 'a' && c <= 'z' || c >= 'A' && c <= 'Z' {
			j := i
			for j < len(src) && (src[j] == '_' || src[j] == '$' || src[j] >= 'a' && src[j] <= 'z' || src[j] >= 'A' && src[j] <= 'Z' || src[j] >= '0' && src[j] <= '9') {
				j++
			}
			out = append(out, ctok{"id", src[i:j], i})
			i = j
			continue
		}
		matched := false
		for _, op := range ops {
			if strings.HasPrefix(src[i:], op) {
				out = append(out, ctok{"op", op, i})
				i += len(op)
				matched = true
				break
			}
		}
		if !matched {
			return nil, fmt.Errorf("unexpected character %q at %d in %q", c, i, src)
		}
	}
	out = append(out, ctok{"eof", "", len(src)})
	return out, nil
}

type cparser struct {
	toks []ctok
	p    int
	src  string
}

func parseCExpr(src string) (e *CExpr, err error) {
	toks, err := clex(src)
	if err != nil {
		return nil, err
	}
	ps := &cparser{toks: toks, src: src}
	defer func() {
		if r := recover(); r != nil {
			if pe, ok := r.(parseErr); ok {
				err = fmt.Errorf("%s in %q", string(pe), src)
				return
			}
			panic(r)
		}
	}()
	e = ps.expr(0)
	if ps.peek().kind != "eof" {
		ps.fail("trailing input at %d: %q", ps.peek().pos, ps.peek().text)
	}
	return e, nil
}

type parseErr string

func (ps *cparser) fail(f string, a ...any) { panic(parseErr(fmt.Sprintf(f, a...))) }
func (ps *cparser) peek() ctok              { return ps.toks[ps.p] }
func (ps *cparser) next() ctok              { t := ps.toks[ps.p]; ps.p++; return t }
func (ps *cparser) isOp(s string) bool      { t := ps.peek(); return t.kind == "op" && t.text == s }
func (ps *cparser) expect(s string) {
	if !ps.isOp(s) {
		ps.fail("expected %q at %d, got %q", s, ps.peek().pos, ps.peek().text)
	}
	ps.next()
}

var binPrec = map[string]int{
	"<==>": 1, "==>": 2, "||": 4, "&&": 5,
	"==": 6, "!=": 6, "<": 6, "<=": 6, ">": 6, ">=": 6,
	"+": 7, "-": 7, "|": 7, "^": 7,
	"*": 8, "/": 8, "%": 8, "<<": 8, ">>": 8, "&": 8, "&^": 8,
}

func (ps *cparser) expr(minPrec int) *CExpr {
	t := ps.peek()
	if t.kind == "id" && (t.text == "forall" || t.text == "exists") {
		return ps.quant()
	}
	lhs := ps.unary()
	for {
		t := ps.peek()
		if t.kind != "op" {
			break
		}
		if t.text == "?" {
			if 3 < minPrec {
				break
			}
			ps.next()
			a := ps.expr(3)
			ps.expect(":")
			b := ps.expr(3)
			lhs = &CExpr{Kind: "cond", X: lhs, Y: a, Z: b}
			continue
		}
		prec, ok := binPrec[t.text]
		if !ok || prec < minPrec {
			break
		}
		ps.next()
		var rhs *CExpr
		if t.text == "==>" {
			rhs = ps.expr(prec) // right assoc
		} else {
			rhs = ps.expr(prec + 1)
		}
		lhs = &CExpr{Kind: "bin", Op: t.text, X: lhs, Y: rhs}
	}
	return lhs
}

func (ps *cparser) quant() *CExpr {
	q := ps.next().text
	e := &CExpr{Kind: "quant", Op: q}
	for {
		n := ps.next()
		if n.kind != "id" {
			ps.fail("quantifier variable expected at %d", n.pos)
		}
		ty := ps.next()
		if ty.kind != "id" {
			ps.fail("quantifier variable type expected at %d", ty.pos)
		}
		e.Vars = append(e.Vars, CVarDecl{n.text, ty.text})
		if ps.isOp(",") {
			ps.next()
			continue
		}
		break
	}
	ps.expect("::")
	e.X = ps.expr(0)
	return e
}

func (ps *cparser) unary() *CExpr {
	t := ps.peek()
	if t.kind == "op" && (t.text == "!" || t.text == "-" || t.text == "&") {
		ps.next()
		x := ps.unary()
		return &CExpr{Kind: "un", Op: t.text, X: x}
	}
	return ps.postfix(ps.primary())
}

func (ps *cparser) primary() *CExpr {
	t := ps.next()
	switch t.kind {
	case "int":
		v, ok := new(big.Int).SetString(strings.ReplaceAll(t.text, "_", ""), 0)
		if !ok {
			ps.fail("bad integer %q", t.text)
		}
		return &CExpr{Kind: "int", Val: v}
	case "id":
		switch t.text {
		case "true", "false":
			return &CExpr{Kind: "bool", Name: t.text}
		case "nil":
			return &CExpr{Kind: "nil"}
		case "forall", "exists":
			ps.p--
			return ps.quant()
		}
		if ps.isOp("(") {
			ps.next()
			args := ps.args()
			return &CExpr{Kind: "call", Name: t.text, Args: args}
		}
		return &CExpr{Kind: "id", Name: t.text}
	case "op":
		if t.text == "(" {
			e := ps.expr(0)
			ps.expect(")")
			return e
		}
	}
	ps.fail("unexpected token %q at %d", t.text, t.pos)
	return nil
}

func (ps *cparser) args() []*CExpr {
	var args []*CExpr
	if ps.isOp(")") {
		ps.next()
		return args
	}
	for {
		args = append(args, ps.expr(0))
		if ps.isOp(",") {
			ps.next()
			continue
		}
		ps.expect(")")
		return args
	}
}

func (ps *cparser) postfix(e *CExpr) *CExpr {
	for {
		switch {
		case ps.isOp("."):
			ps.next()
			n := ps.next()
			if n.kind != "id" && n.kind != "int" {
				ps.fail("field name expected at %d", n.pos)
			}
			if ps.isOp("(") {
				ps.next()
				e = &CExpr{Kind: "mcall", X: e, Name: n.text, Args: ps.args()}
			} else {
				e = &CExpr{Kind: "field", X: e, Name: n.text}
			}
		case ps.isOp("["):
			ps.next()
			var lo, hi *CExpr
			if !ps.isOp(":") {
				lo = ps.expr(0)
			}
			if ps.isOp(":") {
				ps.next()
				if !ps.isOp("]") {
					hi = ps.expr(0)
				}
				ps.expect("]")
				e = &CExpr{Kind: "slice", X: e, Y: lo, Z: hi}
			} else {
				ps.expect("]")
				e = &CExpr{Kind: "index", X: e, Y: lo}
			}
		default:
			return e
		}
	}
}
