package main

// Memory model: pointers, loads, stores, allocation.

import (
	"fmt"
	"go/token"
	"go/types"
)

var closureSeq int

type unsupported struct{ msg string }

func (x *Exec) unsup(f string, a ...any) {
	panic(unsupported{fmt.Sprintf(f, a...)})
}

func (x *Exec) alloc(st *State) *Term { return st.H("$alloc", sortInt) }

// newRef allocates a fresh object reference.
func (x *Exec) newRef(st *State) *Term {
	a := x.alloc(st)
	r := mkAdd(a, mkInt(1))
	st.setH("$alloc", r)
	if x.freshRefs == nil {
		x.freshRefs = map[*Term]bool{}
	}
	x.freshRefs[r] = true
	return r
}

// asPtr converts a value of pointer type into a PtrVal.
func (x *Exec) asPtr(v Val, ptrType types.Type) *PtrVal {
	switch p := v.(type) {
	case *PtrVal:
		if p.Undef {
			x.unsup("use of pointer merged from incompatible shapes")
		}
		return p
	case *Term:
		et := derefType(ptrType)
		if et == nil {
			x.unsup("asPtr on non-pointer type %v", ptrType)
		}
		if structOf(et) != nil && !isTypeParam(et) {
			if !x.env.te.isObjectLike(et) {
				x.unsup("pointer to value-like struct %s loaded from memory", x.env.te.typeStr(et))
			}
			return &PtrVal{Nilc: mkEq(p, mkInt(0)), Base: PObj, Ref: p, BTyp: et, Typ: et}
		}
		// pointer to a non-struct object living in the heap: one-cell object
		return &PtrVal{Nilc: mkEq(p, mkInt(0)), Base: PElem, Ref: p, BTyp: et, Idx: mkInt(0), Typ: et}
	case *BadVal:
		x.unsup("bad value used as pointer: %s", p.Why)
	}
	x.unsup("asPtr: unexpected value %T", v)
	return nil
}

// toTerm converts a value to an SMT term of the sort of type t.
func (x *Exec) toTerm(v Val, t types.Type) *Term {
	switch p := v.(type) {
	case *Term:
		return p
	case *PtrVal:
		if tm, ok := x.ptrToTerm(p); ok {
			return tm
		}
		if p.Base == PElem && len(p.Path) == 0 && structOf(p.BTyp) == nil {
			// pointer to a one-cell heap object
			if isInt(p.Idx) && p.Idx.Val.Sign() == 0 {
				return mkIte(p.Nilc, mkInt(0), p.Ref)
			}
		}
		x.unsup("interior pointer (%s) cannot be stored in memory or passed opaquely", x.env.te.typeStr(p.Typ))
	case *ClosureVal:
		if p.ID == nil {
			// a unique non-zero identity (function values created by closures are never nil)
			closureSeq++
			p.ID = mkInt(int64(1000000 + closureSeq))
		}
		x.closures[p.ID] = p
		return p.ID
	case *BadVal:
		x.unsup("bad value: %s", p.Why)
	case *BuiltinVal:
		return fresh("builtin", sortInt)
	}
	x.unsup("toTerm: unexpected value %T for type %v", v, t)
	return nil
}

// fromTerm wraps a loaded term as a value of type t.
func (x *Exec) fromTerm(tm *Term, t types.Type) Val {
	t = types.Unalias(t)
	if isTypeParam(t) {
		return tm
	}
	if _, ok := t.Underlying().(*types.Pointer); ok {
		et := derefType(t)
		if isTypeParam(et) {
			return tm
		}
		if structOf(et) != nil && x.env.te.isObjectLike(et) {
			return &PtrVal{Nilc: mkEq(tm, mkInt(0)), Base: PObj, Ref: tm, BTyp: et, Typ: et}
		}
		return tm
	}
	if _, ok := t.Underlying().(*types.Signature); ok {
		if c, ok := x.closures[tm]; ok {
			return c
		}
	}
	return tm
}

func (x *Exec) getPath(v *Term, t types.Type, path []PathStep) (*Term, types.Type) {
	for _, s := range path {
		if s.IsIdx {
			a := t.Underlying().(*types.Array)
			v = mkSelect(v, s.Idx)
			t = a.Elem()
		} else {
			st := structOf(t)
			v = mkSel(v, s.Field)
			t = st.Field(s.Field).Type()
		}
	}
	return v, t
}

func (x *Exec) setPath(v *Term, t types.Type, path []PathStep, nv *Term) *Term {
	if len(path) == 0 {
		return nv
	}
	s := path[0]
	if s.IsIdx {
		a := t.Underlying().(*types.Array)
		inner := x.setPath(mkSelect(v, s.Idx), a.Elem(), path[1:], nv)
		return mkStore(v, s.Idx, inner)
	}
	st := structOf(t)
	inner := x.setPath(mkSel(v, s.Field), st.Field(s.Field).Type(), path[1:], nv)
	return mkUpd(v, s.Field, inner)
}

func pathType(t types.Type, path []PathStep) types.Type {
	for _, s := range path {
		if s.IsIdx {
			t = t.Underlying().(*types.Array).Elem()
		} else {
			t = structOf(t).Field(s.Field).Type()
		}
	}
	return t
}

// loadTerm reads the SMT value at p (no nil check here).
func (x *Exec) loadTerm(st *State, p *PtrVal) (*Term, types.Type) {
	te := x.env.te
	switch p.Base {
	case PLocal:
		cv, ok := st.cells[p.Cell]
		if !ok {
			x.unsup("read of dead local %s", p.Cell.Name)
		}
		tm := x.toTerm(cv, p.Cell.Typ)
		return x.getPath(tm, p.Cell.Typ, p.Path)
	case PGlobal:
		gt := p.BTyp
		h := st.H("G:"+p.Glob.Pkg.Pkg.Name()+"."+p.Glob.Name(), te.sortOf(gt))
		return x.getPath(h, gt, p.Path)
	case PObj:
		sty := structOf(p.BTyp)
		if len(p.Path) == 0 {
			args := make([]*Term, sty.NumFields())
			for i := range args {
				n, so := te.fieldHeap(p.BTyp, i)
				args[i] = mkSelect(st.H(n, so), p.Ref)
			}
			return mkCtor(te.sortOf(p.BTyp), args...), p.BTyp
		}
		f := p.Path[0]
		if f.IsIdx {
			x.unsup("index step on object pointer")
		}
		n, so := te.fieldHeap(p.BTyp, f.Field)
		v := mkSelect(st.H(n, so), p.Ref)
		return x.getPath(v, sty.Field(f.Field).Type(), p.Path[1:])
	case PElem:
		n, so := te.elemHeap(p.BTyp)
		v := mkSelect(mkSelect(st.H(n, so), p.Ref), p.Idx)
		return x.getPath(v, p.BTyp, p.Path)
	}
	x.unsup("load through nil/invalid pointer")
	return nil, nil
}

func (x *Exec) storeTerm(st *State, p *PtrVal, nv *Term, pos token.Pos) {
	te := x.env.te
	switch p.Base {
	case PLocal:
		if len(p.Path) == 0 {
			st.cells[p.Cell] = nv
			return
		}
		cv, ok := st.cells[p.Cell]
		if !ok {
			x.unsup("write of dead local %s", p.Cell.Name)
		}
		old := x.toTerm(cv, p.Cell.Typ)
		st.cells[p.Cell] = x.setPath(old, p.Cell.Typ, p.Path, nv)
	case PGlobal:
		gt := p.BTyp
		name := "G:" + p.Glob.Pkg.Pkg.Name() + "." + p.Glob.Name()
		x.checkWrite(st, name, nil, pos)
		h := st.H(name, te.sortOf(gt))
		st.setH(name, x.setPath(h, gt, p.Path, nv))
	case PObj:
		sty := structOf(p.BTyp)
		if len(p.Path) == 0 {
			for i := 0; i < sty.NumFields(); i++ {
				n, so := te.fieldHeap(p.BTyp, i)
				x.checkWrite(st, n, p.Ref, pos)
				st.setH(n, mkStore(st.H(n, so), p.Ref, mkSel(nv, i)))
			}
			return
		}
		f := p.Path[0]
		n, so := te.fieldHeap(p.BTyp, f.Field)
		x.checkWrite(st, n, p.Ref, pos)
		h := st.H(n, so)
		old := mkSelect(h, p.Ref)
		st.setH(n, mkStore(h, p.Ref, x.setPath(old, sty.Field(f.Field).Type(), p.Path[1:], nv)))
	case PElem:
		n, so := te.elemHeap(p.BTyp)
		x.checkWrite(st, n, p.Ref, pos)
		h := st.H(n, so)
		arr := mkSelect(h, p.Ref)
		old := mkSelect(arr, p.Idx)
		st.setH(n, mkStore(h, p.Ref, mkStore(arr, p.Idx, x.setPath(old, p.BTyp, p.Path, nv))))
	default:
		x.unsup("store through nil/invalid pointer")
	}
}

// load reads a Go value through p, with nil obligation.
func (x *Exec) load(st *State, p *PtrVal, pos token.Pos, what string) Val {
	x.nilCheck(st, p, pos, what)
	x.guardAccess(st, p, false, pos)
	if p.Base == PLocal && len(p.Path) == 0 {
		v, ok := st.cells[p.Cell]
		if !ok {
			x.unsup("read of dead local %s", p.Cell.Name)
		}
		return v
	}
	tm, t := x.loadTerm(st, p)
	x.assumeTyped(st, t, tm)
	return x.fromTerm(tm, t)
}

func (x *Exec) store(st *State, p *PtrVal, v Val, pos token.Pos, what string) {
	x.nilCheck(st, p, pos, what)
	x.guardAccess(st, p, true, pos)
	if p.Base == PLocal && len(p.Path) == 0 {
		st.cells[p.Cell] = v
		return
	}
	x.storeTerm(st, p, x.toTerm(v, p.Typ), pos)
}

func (x *Exec) nilCheck(st *State, p *PtrVal, pos token.Pos, what string) {
	if p.Undef {
		x.unsup("use of pointer merged from incompatible shapes")
	}
	if p.Nilc == tFalse {
		return
	}
	x.assert(st, "nil", what, mkNot(p.Nilc), pos, nil)
}

// assumeTyped adds the typing facts of a freshly read value.
func (x *Exec) assumeTyped(st *State, t types.Type, v *Term) {
	if x.noTypeFacts {
		return
	}
	f := x.env.te.typeFacts(t, v, x.alloc(st), 0)
	if f != tTrue {
		if x.factSink != nil {
			*x.factSink = append(*x.factSink, f)
			return
		}
		x.assume(st, f)
	}
}

func (x *Exec) fieldAddr(st *State, p *PtrVal, field int, pos token.Pos, what string) *PtrVal {
	x.nilCheck(st, p, pos, what)
	out := *p
	out.Nilc = tFalse
	out.Path = append(append([]PathStep{}, p.Path...), PathStep{Field: field})
	sty := structOf(p.Typ)
	if sty == nil {
		x.unsup("fieldAddr on non-struct %v", p.Typ)
	}
	out.Typ = sty.Field(field).Type()
	return &out
}

// elemPtr makes a pointer to element i of slice s (absolute index = off+i).
func (x *Exec) elemPtr(s *Term, et types.Type, i *Term) *PtrVal {
	return &PtrVal{Nilc: tFalse, Base: PElem, Ref: sliceRef(s), BTyp: et, Idx: mkAdd(sliceOff(s), i), Typ: et}
}

// slice element read without obligations (used by specs and builtins)
func (x *Exec) sliceAt(st *State, s *Term, et types.Type, i *Term) *Term {
	n, so := x.env.te.elemHeap(et)
	return mkSelect(mkSelect(st.H(n, so), sliceRef(s)), mkAdd(sliceOff(s), i))
}

// allocObject creates a fresh zeroed object of struct type t.
func (x *Exec) allocObject(st *State, t types.Type) *PtrVal {
	te := x.env.te
	r := x.newRef(st)
	sty := structOf(t)
	for i := 0; i < sty.NumFields(); i++ {
		n, so := te.fieldHeap(t, i)
		st.setH(n, mkStore(st.H(n, so), r, te.zero(sty.Field(i).Type())))
	}
	return &PtrVal{Nilc: tFalse, Base: PObj, Ref: r, BTyp: t, Typ: t}
}

// allocArray creates a fresh backing array of n elements of type et, zero-initialised.
func (x *Exec) allocArray(st *State, et types.Type, n *Term) *Term {
	te := x.env.te
	r := x.newRef(st)
	hn, so := te.elemHeap(et)
	st.setH(hn, mkStore(st.H(hn, so), r, mkConstArr(so.Elem, te.zero(et))))
	x.assume(st, mkEq(objlen(r), n))
	return r
}
