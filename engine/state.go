package main

// Symbolic values, pointers, states and merging.

import (
	"fmt"
	"go/types"
	"sort"

	"golang.org/x/tools/go/ssa"
)

type Val interface{}

type PtrBase int

const (
	PNil PtrBase = iota
	PLocal
	PObj
	PElem
	PGlobal
)

type PathStep struct {
	Field int
	Idx   *Term
	IsIdx bool
}

type Cell struct {
	Name string
	Typ  types.Type
	ID   int
	Pos  int // declaration position (token.Pos) for name resolution
}

type PtrVal struct {
	Nilc  *Term
	Base  PtrBase
	Cell  *Cell
	Ref   *Term
	BTyp  types.Type // PObj: struct type; PElem: element type; PGlobal/PLocal: type of the variable
	Idx   *Term      // PElem
	Glob  *ssa.Global
	Path  []PathStep
	Typ   types.Type // pointee type (after path)
	Undef bool       // result of merging incompatible pointers
}

type TupleVal struct{ Elems []Val }

type ClosureVal struct {
	Fn       *ssa.Function
	Bindings []Val
	Recv     Val // bound method receiver (for $bound closures) if any
	ID       *Term
}

type BuiltinVal struct{ Name string }

type IterVal struct {
	Map    *Term
	MTyp   *types.Map
	IsStr  bool
	Region string
}

type BadVal struct{ Why string }

func nilPtr(t types.Type) *PtrVal { return &PtrVal{Nilc: tTrue, Base: PNil, Typ: t} }

func (p *PtrVal) String() string {
	if p.Base == PNil {
		return "nil"
	}
	return fmt.Sprintf("ptr{base=%d cell=%v ref=%v idx=%v path=%d nil=%v}", p.Base, p.Cell, p.Ref, p.Idx, len(p.Path), p.Nilc)
}

type State struct {
	pc    *Term
	cells map[*Cell]Val
	heap  map[string]*Term
	epoch string
	lazy  *lazyMerge // how to resolve heaps not materialised when states with different epochs were merged
	carry *carryRec  // heaps surviving a partial havoc, resolved lazily from the state before it
}

type carryRec struct {
	keep   func(name string) bool
	parent *State
}

type lazyMerge struct {
	conds   []*Term
	parents []*State
}

func newState() *State {
	return &State{pc: tTrue, cells: map[*Cell]Val{}, heap: map[string]*Term{}, epoch: "0"}
}

func (s *State) clone() *State {
	n := &State{pc: s.pc, cells: make(map[*Cell]Val, len(s.cells)), heap: make(map[string]*Term, len(s.heap)), epoch: s.epoch, lazy: s.lazy, carry: s.carry}
	for k, v := range s.cells {
		n.cells[k] = v
	}
	for k, v := range s.heap {
		n.heap[k] = v
	}
	return n
}

var heapSorts = map[string]*Sort{}
var heapNames []string

var hDepth int

func (s *State) H(name string, so *Sort) *Term {
	if t, ok := s.heap[name]; ok {
		return t
	}
	hDepth++
	defer func() { hDepth-- }()
	if hDepth > 5000 {
		panic(fmt.Sprintf("State.H: cyclic lazy/carry chain resolving %s (state %p, carry %v, lazy %v)", name, s, s.carry != nil, s.lazy != nil))
	}
	if _, ok := heapSorts[name]; !ok {
		heapSorts[name] = so
		heapNames = append(heapNames, name)
	}
	var t *Term
	if s.carry != nil && s.carry.keep(name) {
		t = s.carry.parent.H(name, so)
	} else if s.lazy != nil {
		// resolve through the states this one was merged from
		t = s.lazy.parents[0].H(name, so)
		for i := 1; i < len(s.lazy.parents); i++ {
			t = mkIte(s.lazy.conds[i], s.lazy.parents[i].H(name, so), t)
		}
	} else {
		t = mkVar(name+"@"+s.epoch, so)
	}
	s.heap[name] = t
	return t
}

var touchLog *map[string]bool

func (s *State) setH(name string, t *Term) {
	if touchLog != nil {
		(*touchLog)[name] = true
	}
	if _, ok := heapSorts[name]; !ok {
		heapSorts[name] = t.Sort
		heapNames = append(heapNames, name)
	}
	s.heap[name] = t
}

var epochSeq int

func newEpoch() string {
	epochSeq++
	return fmt.Sprintf("e%d", epochSeq)
}

// havocAll forgets everything about the heap (sound over-approximation).
func (s *State) havocAll() { s.havocExcept(nil) }

// havocExcept forgets every heap except those for which keep returns true.
func (s *State) havocExcept(keep func(name string) bool) {
	kept := map[string]*Term{}
	var cr *carryRec
	if keep != nil {
		for _, n := range heapNames {
			if keep(n) {
				kept[n] = s.H(n, heapSorts[n])
			}
		}
		// heaps not touched yet are resolved lazily from a snapshot of the state before
		snap := &State{pc: s.pc, cells: map[*Cell]Val{}, heap: s.heap, epoch: s.epoch, lazy: s.lazy, carry: s.carry}
		cr = &carryRec{keep: keep, parent: snap}
	}
	s.heap = kept
	s.epoch = newEpoch()
	s.lazy = nil
	s.carry = cr
}

func sameLazy(ins []*State) bool {
	for _, s := range ins[1:] {
		if s.lazy != ins[0].lazy || s.carry != ins[0].carry {
			return false
		}
	}
	return true
}

// conjuncts of a pc
func conj(t *Term) []*Term {
	if t.Op == OpAnd {
		return t.Args
	}
	if t == tTrue {
		return nil
	}
	return []*Term{t}
}

// factorPCs returns the common conjuncts and the per-state remainders.
func factorPCs(pcs []*Term) (*Term, []*Term) {
	if len(pcs) == 1 {
		return pcs[0], []*Term{tTrue}
	}
	count := map[*Term]int{}
	for _, p := range pcs {
		for _, c := range conj(p) {
			count[c]++
		}
	}
	var common []*Term
	for _, c := range conj(pcs[0]) {
		if count[c] == len(pcs) {
			common = append(common, c)
		}
	}
	cm := map[*Term]bool{}
	for _, c := range common {
		cm[c] = true
	}
	rem := make([]*Term, len(pcs))
	for i, p := range pcs {
		var r []*Term
		for _, c := range conj(p) {
			if !cm[c] {
				r = append(r, c)
			}
		}
		rem[i] = mkAnd(r...)
	}
	return mkAnd(common...), rem
}

// simplifyDisj: (a & c) | (a & !c) -> a, recursively via factoring.
func disjoin(rem []*Term) *Term {
	if len(rem) == 2 {
		a, b := conj(rem[0]), conj(rem[1])
		if len(a) == 1 && len(b) == 1 && a[0] == mkNot(b[0]) {
			return tTrue
		}
	}
	d := mkOr(rem...)
	if d.Op == OpOr && len(d.Args) > 1 {
		com, rr := factorPCs(d.Args)
		if com != tTrue {
			return mkAnd(com, disjoin(rr))
		}
	}
	return d
}

type mergeCtx struct {
	x *Exec
}

func (x *Exec) mergeStates(ins []*State) *State {
	if len(ins) == 1 {
		return ins[0]
	}
	// drop infeasible
	var live []*State
	for _, s := range ins {
		if s.pc != tFalse {
			live = append(live, s)
		}
	}
	if len(live) == 0 {
		return ins[0]
	}
	if len(live) == 1 {
		return live[0]
	}
	ins = live
	pcs := make([]*Term, len(ins))
	for i, s := range ins {
		pcs[i] = s.pc
	}
	common, rem := factorPCs(pcs)
	out := &State{pc: mkAnd(common, disjoin(rem)), cells: map[*Cell]Val{}, heap: map[string]*Term{}}
	// epoch
	same := true
	for _, s := range ins[1:] {
		if s.epoch != ins[0].epoch {
			same = false
		}
	}
	if same && sameLazy(ins) {
		out.epoch = ins[0].epoch
		out.lazy = ins[0].lazy
		out.carry = ins[0].carry
	} else {
		same = false
		out.epoch = newEpoch()
		// shallow snapshots: callers may overwrite one of the inputs with the merge result
		// (*st = *m), which must not make the result its own parent
		snaps := make([]*State, len(ins))
		for i, s := range ins {
			cp := *s
			snaps[i] = &cp
		}
		out.lazy = &lazyMerge{conds: rem, parents: snaps}
	}
	// heaps
	names := map[string]bool{}
	for _, s := range ins {
		for k := range s.heap {
			names[k] = true
		}
	}
	_ = same
	var nl []string
	for k := range names {
		nl = append(nl, k)
	}
	sort.Strings(nl)
	for _, k := range nl {
		so := heapSorts[k]
		var cur *Term
		allSame := true
		vals := make([]*Term, len(ins))
		for i, s := range ins {
			vals[i] = s.H(k, so)
			if vals[i] != vals[0] {
				allSame = false
			}
		}
		if allSame {
			out.heap[k] = vals[0]
			continue
		}
		cur = vals[0]
		for i := 1; i < len(ins); i++ {
			cur = mkIte(rem[i], vals[i], cur)
		}
		out.heap[k] = cur
	}
	// cells
	cellset := map[*Cell]bool{}
	for _, s := range ins {
		for c := range s.cells {
			cellset[c] = true
		}
	}
	var cellList []*Cell
	for c := range cellset {
		cellList = append(cellList, c)
	}
	sort.Slice(cellList, func(i, j int) bool { return cellList[i].ID < cellList[j].ID })
	for _, c := range cellList {
		var cur Val
		have := false
		for i, s := range ins {
			v, ok := s.cells[c]
			if !ok {
				continue
			}
			if !have {
				cur, have = v, true
				continue
			}
			cur = x.mergeVal(rem[i], v, cur)
		}
		out.cells[c] = cur
	}
	return out
}

// mergeVal = ite(c, a, b)
func (x *Exec) mergeVal(c *Term, a, b Val) Val {
	if a == b {
		return a
	}
	switch av := a.(type) {
	case *Term:
		if bv, ok := b.(*Term); ok {
			if av.Sort != bv.Sort {
				return &BadVal{"merge of terms of different sorts"}
			}
			return mkIte(c, av, bv)
		}
		if bp, ok := b.(*PtrVal); ok && av.Sort == sortInt {
			if t, ok := x.ptrToTerm(bp); ok {
				return mkIte(c, av, t)
			}
		}
	case *PtrVal:
		if bt, ok := b.(*Term); ok && bt.Sort == sortInt {
			if t, ok := x.ptrToTerm(av); ok {
				return mkIte(c, t, bt)
			}
		}
		bv, ok := b.(*PtrVal)
		if !ok {
			break
		}
		return mergePtr(c, av, bv)
	case *TupleVal:
		bv, ok := b.(*TupleVal)
		if !ok || len(bv.Elems) != len(av.Elems) {
			break
		}
		out := &TupleVal{Elems: make([]Val, len(av.Elems))}
		for i := range av.Elems {
			out.Elems[i] = x.mergeVal(c, av.Elems[i], bv.Elems[i])
		}
		return out
	case *ClosureVal:
		bv, ok := b.(*ClosureVal)
		if !ok || bv.Fn != av.Fn || len(bv.Bindings) != len(av.Bindings) {
			break
		}
		out := &ClosureVal{Fn: av.Fn, Bindings: make([]Val, len(av.Bindings))}
		for i := range av.Bindings {
			out.Bindings[i] = x.mergeVal(c, av.Bindings[i], bv.Bindings[i])
		}
		if av.Recv != nil && bv.Recv != nil {
			out.Recv = x.mergeVal(c, av.Recv, bv.Recv)
		}
		return out
	case *BadVal:
		return av
	}
	if bb, ok := b.(*BadVal); ok {
		return bb
	}
	return &BadVal{fmt.Sprintf("merge of incompatible values %T / %T", a, b)}
}

func mergePtr(c *Term, a, b *PtrVal) Val {
	if a.Undef {
		return a
	}
	if b.Undef {
		return b
	}
	if a.Base == PNil && b.Base == PNil {
		return a
	}
	if a.Base == PNil {
		out := *b
		out.Nilc = mkIte(c, tTrue, b.Nilc)
		return &out
	}
	if b.Base == PNil {
		out := *a
		out.Nilc = mkIte(c, a.Nilc, tTrue)
		return &out
	}
	bad := &PtrVal{Undef: true, Nilc: tFalse, Typ: a.Typ}
	if a.Base != b.Base || len(a.Path) != len(b.Path) || a.Cell != b.Cell || a.Glob != b.Glob {
		return bad
	}
	if a.BTyp != nil && b.BTyp != nil && !types.Identical(a.BTyp, b.BTyp) {
		return bad
	}
	out := *a
	out.Nilc = mkIte(c, a.Nilc, b.Nilc)
	if a.Ref != nil {
		out.Ref = mkIte(c, a.Ref, b.Ref)
	}
	if a.Idx != nil {
		out.Idx = mkIte(c, a.Idx, b.Idx)
	}
	out.Path = make([]PathStep, len(a.Path))
	for i := range a.Path {
		if a.Path[i].IsIdx != b.Path[i].IsIdx || a.Path[i].Field != b.Path[i].Field {
			return bad
		}
		out.Path[i] = a.Path[i]
		if a.Path[i].IsIdx {
			out.Path[i].Idx = mkIte(c, a.Path[i].Idx, b.Path[i].Idx)
		}
	}
	return &out
}

// ptrToTerm converts an object pointer (or nil) into its Ref integer.
func (x *Exec) ptrToTerm(p *PtrVal) (*Term, bool) {
	if p.Undef {
		return nil, false
	}
	switch p.Base {
	case PNil:
		return mkInt(0), true
	case PObj:
		if len(p.Path) == 0 {
			return mkIte(p.Nilc, mkInt(0), p.Ref), true
		}
	}
	return nil, false
}
