package main

// C12: wrap-around kind discipline. Fields, parameters and locals holding 32-bit sequence
// numbers or millisecond clock values are declared with a kind (`kind seq ...`, `kind clock ...`
// in the contracts file). An SSA dataflow pass propagates the kinds through the real code and
// generates one obligation per operation that could observe the absolute position in the 32-bit
// space:
//
//   - an ordered comparison (< <= > >=) with a kinded operand (ordering must go through the
//     signed 32-bit difference _itimediff);
//   - min/max of kinded values; a conversion of a kinded value to another integer width;
//   - mixing the two kinds (comparison, subtraction, assignment, argument of a kinded parameter);
//   - both arguments of _itimediff must be of the same kind.
//
// Allowed: equality, + and - with an unkinded offset (result keeps the kind), difference of two
// values of the same kind (result is an unkinded duration), multiplication by an unkinded
// factor (FEC ids scaled by the group size), use as map key.
//
// Lemma (paper, DESIGN.md): a program whose kinded values are only operated on by these allowed
// operations (all of them commute with adding a constant modulo 2^32, and _itimediff is
// invariant under it) behaves identically when every seq value is shifted by a and every clock
// value by b. The pass decides the premise for every function of the package.

import (
	"fmt"
	"go/token"
	"go/types"
	"sort"
	"strings"

	"golang.org/x/tools/go/ssa"
)

type kindT int

const (
	kNone kindT = iota
	kSeq
	kClock
	kConflict
	kFid    // FEC sequence id (wraps at paws, a multiple of the group size)
	kGid    // FEC group id = fid / group size
	kPaws   // the FEC wrap value
	kFidRaw // a FEC id plus an offset, not yet reduced modulo paws
)

func (k kindT) String() string {
	return [...]string{"plain", "seq", "clock", "mixed", "fecid", "fecgroup", "paws", "fecid+offset"}[k]
}

func joinKind(a, b kindT) kindT {
	if (a == kFid && b == kFidRaw) || (a == kFidRaw && b == kFid) {
		return kFidRaw
	}
	switch {
	case a == kNone:
		return b
	case b == kNone || a == b:
		return a
	}
	return kConflict
}

type KindSpec struct {
	Field  map[string]kindT // "Struct.field"
	Local  map[string]kindT // "FuncKey.var" (locals and parameters)
	Result map[string]kindT // function key -> kind of its result
	Exempt map[string]bool  // functions implementing the comparison itself
}

func parseKindName(s string) kindT {
	switch s {
	case "seq":
		return kSeq
	case "clock":
		return kClock
	case "fecid":
		return kFid
	case "fecgroup":
		return kGid
	case "paws":
		return kPaws
	}
	return kNone
}

type kindPass struct {
	env   *Env
	spec  *KindSpec
	val   map[ssa.Value]kindT
	cell  map[string]kindT
	obl   []*Oblig
	occ   map[string]int
	check bool
	chg   bool
}

func isU32(t types.Type) bool {
	b, ok := types.Unalias(t).Underlying().(*types.Basic)
	return ok && (b.Kind() == types.Uint32)
}

func (kp *kindPass) cellKey(fn *ssa.Function, name string) string {
	return kp.env.keyOf(rootFn(fn)) + "." + name
}

func (kp *kindPass) setVal(v ssa.Value, k kindT) {
	if k == kNone {
		return
	}
	n := joinKind(kp.val[v], k)
	if n != kp.val[v] {
		kp.val[v] = n
		kp.chg = true
	}
}

func (kp *kindPass) setCell(key string, k kindT) {
	if k == kNone {
		return
	}
	if d, ok := kp.spec.Local[key]; ok {
		k = joinKind(d, k)
	}
	n := joinKind(kp.cell[key], k)
	if n != kp.cell[key] {
		kp.cell[key] = n
		kp.chg = true
	}
}

// addrKind: kind of the location a pointer value designates.
func (kp *kindPass) addrKind(fn *ssa.Function, a ssa.Value) (kindT, string) {
	switch p := a.(type) {
	case *ssa.Alloc:
		key := kp.cellKey(fn, p.Comment)
		return joinKind(kp.spec.Local[key], kp.cell[key]), key
	case *ssa.FreeVar:
		key := kp.cellKey(fn, p.Name())
		return joinKind(kp.spec.Local[key], kp.cell[key]), key
	case *ssa.FieldAddr:
		st := derefType(p.X.Type())
		if st == nil {
			return kNone, ""
		}
		s := structOf(st)
		if s == nil {
			return kNone, ""
		}
		key := kp.env.te.namedKey(st) + "." + s.Field(p.Field).Name()
		return kp.spec.Field[key], "field:" + key
	}
	return kNone, ""
}

func (kp *kindPass) report(fn *ssa.Function, pos token.Pos, desc string, ok bool) {
	if !kp.check {
		return
	}
	key := kp.env.keyOf(fn)
	base := fmt.Sprintf("%s:kind:%q", key, desc)
	kp.occ[base]++
	o := &Oblig{Kind: "kind", Desc: desc, Fn: key, Pos: kp.env.posStr(pos), Goal: tTrue, PC: tTrue, Tags: []string{"C12"}}
	o.Name = fmt.Sprintf("%s#%d", base, kp.occ[base])
	if ok {
		o.Trivial, o.Result, o.Solver = true, "unsat", "kind-pass"
	} else {
		o.Result, o.Solver = "violated", "kind-pass"
		o.Goal = tFalse
		o.Output = "the operation observes the absolute position of a wrap-around quantity (or mixes kinds): not invariant under shifting sequence numbers / the clock by a constant"
	}
	kp.obl = append(kp.obl, o)
}

func (kp *kindPass) runFunc(fn *ssa.Function) {
	key := kp.env.keyOf(fn)
	exempt := kp.spec.Exempt[key]
	for _, p := range fn.Params {
		if isU32(p.Type()) {
			kp.setVal(p, kp.spec.Local[kp.cellKey(fn, p.Name())])
		}
	}
	for _, b := range fn.Blocks {
		for _, in := range b.Instrs {
			switch i := in.(type) {
			case *ssa.Store:
				k := kp.val[i.Val]
				ak, akey := kp.addrKind(fn, i.Addr)
				if strings.HasPrefix(akey, "field:") {
					if ak != kNone || k != kNone {
						_, isConst := i.Val.(*ssa.Const)
						good := ak == k || (k == kNone && isConst) || (ak != kNone && k == kNone && kp.plainOK(i.Val)) || ak == kPaws
						if ak == kNone && k != kNone {
							good = !isU32(i.Val.Type()) || false
						}
						kp.report(fn, i.Pos(), fmt.Sprintf("store of a %s value into %s (%s)", k, strings.TrimPrefix(akey, "field:"), ak), good)
					}
				} else if akey != "" && isU32(i.Val.Type()) {
					kp.setCell(akey, k)
				}
			case *ssa.UnOp:
				if i.Op == token.MUL { // load
					if isU32(i.Type()) {
						k, _ := kp.addrKind(fn, i.X)
						kp.setVal(i, k)
					}
				} else {
					kp.setVal(i, kp.val[i.X])
				}
			case *ssa.Field:
				if s := structOf(i.X.Type()); s != nil {
					kp.setVal(i, kp.spec.Field[kp.env.te.namedKey(i.X.Type())+"."+s.Field(i.Field).Name()])
				}
			case *ssa.Phi:
				for _, e := range i.Edges {
					kp.setVal(i, kp.val[e])
				}
			case *ssa.ChangeType:
				kp.setVal(i, kp.val[i.X])
			case *ssa.Convert:
				k := kp.val[i.X]
				if k != kNone {
					same := isU32(i.Type())
					if same {
						kp.setVal(i, k)
					} else if !exempt && k != kPaws {
						kp.report(fn, i.Pos(), fmt.Sprintf("conversion of a %s value to %s", k, i.Type()), onlyStats(i))
					}
				}
			case *ssa.BinOp:
				kx, ky := kp.val[i.X], kp.val[i.Y]
				if i.Op == token.EQL || i.Op == token.NEQ || i.Op == token.SUB {
					kx, ky = unraw(kx), unraw(ky)
				}
				switch i.Op {
				case token.ADD:
					if kx != kNone && ky != kNone {
						kp.report(fn, i.Pos(), fmt.Sprintf("sum of a %s and a %s value", kx, ky), false)
					} else if k := joinKind(kx, ky); k == kFid || k == kFidRaw {
						kp.setVal(i, kFidRaw)
					} else {
						kp.setVal(i, k)
					}
				case token.SUB:
					if kx != kNone && ky != kNone {
						// group ids wrap at paws / group size, not at 2^32: their difference is not wrap-safe
						kp.report(fn, i.Pos(), fmt.Sprintf("difference of a %s and a %s value", kx, ky), kx == ky && kx != kGid)
						// result: an unkinded duration / distance
					} else if kx != kNone {
						kp.setVal(i, kx)
					} else if ky != kNone {
						kp.report(fn, i.Pos(), fmt.Sprintf("plain value minus a %s value", ky), false)
					}
				case token.MUL:
					if kx != kNone && ky != kNone {
						kp.report(fn, i.Pos(), "product of two wrap-around values", false)
					} else if joinKind(kx, ky) == kGid {
						kp.setVal(i, kFidRaw) // group id scaled by the group size: back in the id space
					} else {
						kp.setVal(i, joinKind(kx, ky))
					}
				case token.LSS, token.LEQ, token.GTR, token.GEQ:
					if (kx == kFid && ky == kPaws) || (kx == kPaws && ky == kFid) {
						kp.report(fn, i.Pos(), "range test of a FEC id against the wrap value", true)
					} else if kx == kPaws || ky == kPaws {
						// the wrap value itself is an ordinary number
					} else if (kx != kNone || ky != kNone) && !exempt {
						kp.report(fn, i.Pos(), fmt.Sprintf("ordered comparison %s of a %s and a %s value (must go through _itimediff)", i.Op, kx, ky), false)
					}
				case token.EQL, token.NEQ:
					if kx != kNone && ky != kNone {
						kp.report(fn, i.Pos(), fmt.Sprintf("equality of a %s and a %s value", kx, ky), kx == ky)
					}
				case token.QUO, token.REM, token.SHL, token.SHR, token.AND, token.OR, token.XOR, token.AND_NOT:
					if kx == kPaws || (kx == kNone && ky == kPaws) {
						break
					}
					if (kx == kFid || kx == kFidRaw) && i.Op == token.REM && ky == kPaws {
						kp.setVal(i, kFid) // reduction modulo the wrap value
					} else if kx == kFid && i.Op == token.REM && ky == kNone {
						kp.report(fn, i.Pos(), "position of a FEC id in its group (id % group size)", true)
					} else if kx == kFid && i.Op == token.QUO && ky == kNone {
						kp.setVal(i, kGid)
					} else if (kx != kNone || ky != kNone) && !exempt {
						kp.report(fn, i.Pos(), fmt.Sprintf("operator %s applied to a %s / %s value", i.Op, kx, ky), false)
					}
				}
			case *ssa.Call:
				kp.call(fn, i, exempt)
			}
			if kp.val[valueOf(in)] == kConflict {
				kp.report(fn, in.Pos(), "value mixes sequence-number and clock kinds", false)
			}
		}
	}
}

// onlyStats: the converted value is only handed to sync/atomic (statistics counters).
func onlyStats(c *ssa.Convert) bool {
	refs := c.Referrers()
	if refs == nil || len(*refs) == 0 {
		return false
	}
	for _, r := range *refs {
		call, ok := r.(*ssa.Call)
		if !ok {
			if _, isDbg := r.(*ssa.DebugRef); isDbg {
				continue
			}
			return false
		}
		f := call.Common().StaticCallee()
		if f == nil || f.Pkg == nil || f.Pkg.Pkg.Path() != "sync/atomic" {
			return false
		}
	}
	return true
}

func unraw(k kindT) kindT {
	if k == kFidRaw {
		return kFid
	}
	return k
}

func valueOf(in ssa.Instruction) ssa.Value {
	if v, ok := in.(ssa.Value); ok {
		return v
	}
	return nil
}

// plainOK: an unkinded value that may be stored into a kinded field (constants, values decoded
// from the wire or produced by the kind-producing functions are declared, so anything else is
// suspicious only if it is a computed ordering). Kept permissive: constants and parameters.
func (kp *kindPass) plainOK(v ssa.Value) bool {
	switch v.(type) {
	case *ssa.Const, *ssa.Parameter:
		return true
	}
	return false
}

func (kp *kindPass) call(fn *ssa.Function, c *ssa.Call, exempt bool) {
	cc := c.Common()
	if b, ok := cc.Value.(*ssa.Builtin); ok {
		if b.Name() == "min" || b.Name() == "max" {
			for _, a := range cc.Args {
				if kp.val[a] != kNone {
					kp.report(fn, c.Pos(), fmt.Sprintf("%s of a %s value", b.Name(), kp.val[a]), false)
					return
				}
			}
		}
		return
	}
	callee := cc.StaticCallee()
	if callee == nil {
		return
	}
	ckey := kp.env.keyOf(callee)
	if k, ok := kp.spec.Result[ckey]; ok {
		kp.setVal(c, k)
	}
	if ckey == "_itimediff" && len(cc.Args) == 2 {
		ka, kb := unraw(kp.val[cc.Args[0]]), unraw(kp.val[cc.Args[1]])
		if ka != kNone || kb != kNone {
			kp.report(fn, c.Pos(), fmt.Sprintf("_itimediff of a %s and a %s value", ka, kb), ka == kb || ka == kNone || kb == kNone)
		}
		return
	}
	if callee.Pkg != kp.env.spkg {
		// a kinded value handed to foreign code (formatting, atomics ...): only flag integer sinks
		return
	}
	args := cc.Args
	params := callee.Params
	for j := 0; j < len(args) && j < len(params); j++ {
		if !isU32(params[j].Type()) {
			continue
		}
		pk := kp.spec.Local[kp.cellKey(callee, params[j].Name())]
		ak := unraw(kp.val[args[j]])
		if pk != kNone && ak != kNone {
			kp.report(fn, c.Pos(), fmt.Sprintf("%s argument for %s parameter %s of %s", ak, pk, params[j].Name(), ckey), pk == ak)
		} else if pk == kNone && ak != kNone {
			// inference: an undeclared parameter receiving a kinded value takes the kind
			kp.setCell(kp.cellKey(callee, params[j].Name()), ak)
			kp.setVal(params[j], ak)
		}
	}
}

// runKindDiscipline checks every function of the package and returns the obligations as a unit.
func runKindDiscipline(env *Env) *Unit {
	spec := env.con.Kinds
	u := &Unit{Key: "kind-discipline", Notes: map[string]bool{}, Trusted: map[string]bool{}, Inlined: map[string]bool{}}
	if spec == nil || len(spec.Field) == 0 {
		u.Unsupported = append(u.Unsupported, "no kind declarations in the contracts file")
		return u
	}
	kp := &kindPass{env: env, spec: spec, val: map[ssa.Value]kindT{}, cell: map[string]kindT{}, occ: map[string]int{}}
	var keys []string
	for k := range env.funcs {
		keys = append(keys, k)
	}
	sort.Strings(keys)
	var all []*ssa.Function
	for _, k := range keys {
		fn := env.funcs[k]
		if fn == nil || len(fn.Blocks) == 0 || fn.Pkg != env.spkg && fn.Parent() == nil {
			continue
		}
		all = append(all, fn)
	}
	for iter := 0; iter < 12; iter++ {
		kp.chg = false
		for _, fn := range all {
			kp.runFunc(fn)
		}
		if !kp.chg {
			break
		}
	}
	kp.check = true
	for _, fn := range all {
		kp.runFunc(fn)
	}
	u.Obligs = kp.obl
	// declared names must exist (drift guard)
	for k := range spec.Field {
		i := strings.Index(k, ".")
		obj := env.pkg.Types.Scope().Lookup(k[:i])
		ok := false
		if obj != nil {
			if st, isS := obj.Type().Underlying().(*types.Struct); isS {
				for j := 0; j < st.NumFields(); j++ {
					if st.Field(j).Name() == k[i+1:] {
						ok = true
					}
				}
			}
		}
		if !ok {
			u.Unsupported = append(u.Unsupported, "kind declared for unknown field "+k)
		}
	}
	return u
}
