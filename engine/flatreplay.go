package main

// Generic model-driven replay for "flat" functions: a method (or function) whose parameters are
// integers or booleans and whose receiver is a pointer to a struct. The solver's counterexample
// is queried for the parameters, the scalar fields of the receiver and the lengths of its slice
// fields; a generated in-package test builds the receiver as a zero value, sets those fields
// (slices are allocated to the model's length, contents zero), checks the preconditions it can
// translate, runs the real function and
//   - for a safety obligation counts the violation as reproduced if the real code panics;
//   - for a postcondition evaluates the clause, translated to Go over int64, on the state before
//     (a shallow copy of the receiver) and after the call, and counts it as reproduced if it is
//     false (or the call panics).
// A postcondition is replayed only if every precondition of the function could be translated too
// (a candidate that violates a precondition proves nothing). Anything the translator does not
// understand (quantifiers, spec functions with quantifiers, nested objects) means: no replay.

import (
	"fmt"
	"os"
	"go/types"
	"sort"
	"strings"

	"golang.org/x/tools/go/ssa"
)

type goVal struct {
	code string
	kind string     // "int" (an int64 expression), "bool", "obj" (anything else: typ says what)
	typ  types.Type // for obj
}

type goTr struct {
	env   *Env
	vars  map[string]goVal // names visible in the clause
	olds  map[string]goVal // the same names in the pre-state (shallow copies)
	inOld bool
	depth int
	bad   string
	// lenient (preconditions): a conjunct that cannot be translated (nil-ness, object identity,
	// quantifiers) is left unchecked and recorded, instead of giving up
	lenient bool
	skipped []string
}

func (g *goTr) fail(f string, a ...any) goVal {
	if g.bad == "" {
		g.bad = fmt.Sprintf(f, a...)
	}
	return goVal{code: "0", kind: "int"}
}

func (g *goTr) wrapObj(code string, t types.Type) goVal {
	if b, ok := t.Underlying().(*types.Basic); ok {
		if b.Info()&types.IsInteger != 0 {
			return goVal{code: "int64(" + code + ")", kind: "int"}
		}
		if b.Info()&types.IsBoolean != 0 {
			return goVal{code: code, kind: "bool"}
		}
	}
	return goVal{code: code, kind: "obj", typ: t}
}

var goCasts = map[string]string{"uint8": "uint8", "byte": "uint8", "uint16": "uint16", "uint32": "uint32", "uint64": "uint64",
	"int8": "int8", "int16": "int16", "int32": "int32", "int64": "int64", "int": "int64", "uint": "uint64"}

func (g *goTr) ex(e *CExpr) goVal {
	if g.bad != "" || e == nil {
		return goVal{code: "0", kind: "int"}
	}
	g.depth++
	defer func() { g.depth-- }()
	if g.depth > 60 {
		return g.fail("expression too deep")
	}
	switch e.Kind {
	case "int":
		return goVal{code: "int64(" + e.Val.String() + ")", kind: "int"}
	case "bool":
		return goVal{code: e.Name, kind: "bool"}
	case "id":
		m := g.vars
		if g.inOld {
			m = g.olds
		}
		if v, ok := m[e.Name]; ok {
			return v
		}
		return g.fail("unknown name %s", e.Name)
	case "un":
		x := g.ex(e.X)
		switch e.Op {
		case "!":
			if x.kind != "bool" {
				return g.fail("! of non-bool")
			}
			return goVal{code: "!(" + x.code + ")", kind: "bool"}
		case "-":
			if x.kind != "int" {
				return g.fail("- of non-int")
			}
			return goVal{code: "(-(" + x.code + "))", kind: "int"}
		}
		return g.fail("unary %s", e.Op)
	case "bin":
		if e.Op == "&&" && g.lenient && !g.inOld {
			side := func(c *CExpr) goVal {
				v := g.ex(c)
				if g.bad != "" || v.kind != "bool" {
					g.skipped = append(g.skipped, c.String())
					g.bad = ""
					return goVal{code: "true", kind: "bool"}
				}
				return v
			}
			x, y := side(e.X), side(e.Y)
			return goVal{code: "(" + x.code + " && " + y.code + ")", kind: "bool"}
		}
		x, y := g.ex(e.X), g.ex(e.Y)
		switch e.Op {
		case "+", "-", "*":
			if x.kind != "int" || y.kind != "int" {
				return g.fail("arithmetic on non-int")
			}
			return goVal{code: "(" + x.code + " " + e.Op + " " + y.code + ")", kind: "int"}
		case "/", "%":
			if x.kind != "int" || y.kind != "int" {
				return g.fail("arithmetic on non-int")
			}
			fn := "vdiv"
			if e.Op == "%" {
				fn = "vmod"
			}
			return goVal{code: fn + "(" + x.code + ", " + y.code + ")", kind: "int"}
		case "<", "<=", ">", ">=":
			if x.kind != "int" || y.kind != "int" {
				return g.fail("ordering of non-int")
			}
			return goVal{code: "(" + x.code + " " + e.Op + " " + y.code + ")", kind: "bool"}
		case "==", "!=":
			if x.kind != y.kind || x.kind == "obj" {
				return g.fail("equality of %s and %s", x.kind, y.kind)
			}
			return goVal{code: "(" + x.code + " " + e.Op + " " + y.code + ")", kind: "bool"}
		case "&&", "||":
			if x.kind != "bool" || y.kind != "bool" {
				return g.fail("connective on non-bool")
			}
			return goVal{code: "(" + x.code + " " + e.Op + " " + y.code + ")", kind: "bool"}
		case "==>":
			if x.kind != "bool" || y.kind != "bool" {
				return g.fail("connective on non-bool")
			}
			return goVal{code: "(!(" + x.code + ") || " + y.code + ")", kind: "bool"}
		case "<==>":
			if x.kind != "bool" || y.kind != "bool" {
				return g.fail("connective on non-bool")
			}
			return goVal{code: "(" + x.code + " == " + y.code + ")", kind: "bool"}
		}
		return g.fail("operator %s", e.Op)
	case "cond":
		c, a, b := g.ex(e.X), g.ex(e.Y), g.ex(e.Z)
		if c.kind != "bool" || a.kind != b.kind || a.kind == "obj" {
			return g.fail("conditional")
		}
		rt := "int64"
		if a.kind == "bool" {
			rt = "bool"
		}
		return goVal{code: fmt.Sprintf("func() %s { if %s { return %s }; return %s }()", rt, c.code, a.code, b.code), kind: a.kind}
	case "field":
		x := g.ex(e.X)
		if x.kind != "obj" {
			return g.fail("field of non-object")
		}
		st := structOf(x.typ)
		if p := derefType(x.typ); p != nil {
			st = structOf(p)
		}
		if st == nil {
			return g.fail("field %s of a non-struct", e.Name)
		}
		for i := 0; i < st.NumFields(); i++ {
			if st.Field(i).Name() == e.Name {
				return g.wrapObj(x.code+"."+e.Name, st.Field(i).Type())
			}
		}
		return g.fail("no field %s", e.Name)
	case "index":
		x, y := g.ex(e.X), g.ex(e.Y)
		if x.kind != "obj" || y.kind != "int" {
			return g.fail("index")
		}
		if g.inOld {
			return g.fail("element of a slice in the pre-state (only a shallow copy is kept)")
		}
		var et types.Type
		switch u := x.typ.Underlying().(type) {
		case *types.Slice:
			et = u.Elem()
		case *types.Array:
			et = u.Elem()
		default:
			return g.fail("index of %s", x.typ)
		}
		return g.wrapObj(x.code+"["+y.code+"]", et)
	case "call":
		if e.Name == "old" && len(e.Args) == 1 {
			if g.olds == nil {
				return g.fail("old() in a precondition")
			}
			was := g.inOld
			g.inOld = true
			v := g.ex(e.Args[0])
			g.inOld = was
			return v
		}
		if c, ok := goCasts[e.Name]; ok && len(e.Args) == 1 {
			x := g.ex(e.Args[0])
			if x.kind != "int" {
				return g.fail("conversion of non-int")
			}
			return goVal{code: "int64(" + c + "(" + x.code + "))", kind: "int"}
		}
		switch e.Name {
		case "len", "cap":
			if len(e.Args) == 1 {
				x := g.ex(e.Args[0])
				if x.kind != "obj" {
					return g.fail("len of non-object")
				}
				switch x.typ.Underlying().(type) {
				case *types.Slice, *types.Array, *types.Map:
					return goVal{code: "int64(" + e.Name + "(" + x.code + "))", kind: "int"}
				}
				if b, ok := x.typ.Underlying().(*types.Basic); ok && b.Info()&types.IsString != 0 && e.Name == "len" {
					return goVal{code: "int64(len(" + x.code + "))", kind: "int"}
				}
				return g.fail("len of %s", x.typ)
			}
		case "min", "max":
			if len(e.Args) == 2 {
				x, y := g.ex(e.Args[0]), g.ex(e.Args[1])
				if x.kind != "int" || y.kind != "int" {
					return g.fail("min/max of non-int")
				}
				return goVal{code: "v" + e.Name + "(" + x.code + ", " + y.code + ")", kind: "int"}
			}
		case "addu32":
			if len(e.Args) == 2 {
				x, y := g.ex(e.Args[0]), g.ex(e.Args[1])
				return goVal{code: "int64(uint32(" + x.code + " + " + y.code + "))", kind: "int"}
			}
		case "subu32":
			if len(e.Args) == 2 {
				x, y := g.ex(e.Args[0]), g.ex(e.Args[1])
				return goVal{code: "int64(uint32(" + x.code + " - " + y.code + "))", kind: "int"}
			}
		case "itimediff":
			if len(e.Args) == 2 {
				x, y := g.ex(e.Args[0]), g.ex(e.Args[1])
				return goVal{code: "int64(int32(uint32(" + x.code + ") - uint32(" + y.code + ")))", kind: "int"}
			}
		}
		// a spec function or predicate without receiver
		if sd := g.env.con.Specs[e.Name]; sd != nil && len(e.Args) == len(sd.Params) && sd.RecvName == "" {
			return g.inline(sd, nil, e.Args)
		}
		return g.fail("function %s", e.Name)
	case "mcall":
		x := g.ex(e.X)
		if x.kind != "obj" {
			return g.fail("method of non-object")
		}
		rt := types.Unalias(x.typ)
		if p := derefType(rt); p != nil {
			rt = p
		}
		key := g.env.te.namedKey(rt) + "." + e.Name
		if sd := g.env.con.Specs[key]; sd != nil && len(e.Args) == len(sd.Params) {
			return g.inline(sd, &x, e.Args)
		}
		return g.fail("method %s", key)
	}
	return g.fail("expression kind %s", e.Kind)
}

// inline translates the body of a spec function / predicate with its parameters bound.
func (g *goTr) inline(sd *SpecDef, recv *goVal, args []*CExpr) goVal {
	bind := func(m map[string]goVal) map[string]goVal {
		n := map[string]goVal{}
		for k, v := range m {
			n[k] = v
		}
		return n
	}
	var argv []goVal
	for _, a := range args {
		argv = append(argv, g.ex(a))
	}
	savedV, savedO := g.vars, g.olds
	nv := bind(g.vars)
	var no map[string]goVal
	if g.olds != nil {
		no = bind(g.olds)
	}
	set := func(name string, v goVal) {
		if g.inOld {
			// the call sits under old(): its arguments were translated in the pre-state
			if no != nil {
				no[name] = v
			}
			nv[name] = v
		} else {
			nv[name] = v
			if no != nil {
				delete(no, name) // no pre-state version of a bound value
			}
		}
	}
	if recv != nil && sd.RecvName != "" {
		set(sd.RecvName, *recv)
	}
	for i, p := range sd.Params {
		set(p.Name, argv[i])
	}
	g.vars, g.olds = nv, no
	v := g.ex(sd.Body)
	g.vars, g.olds = savedV, savedO
	return v
}

func goTypeString(t types.Type) (string, bool) {
	ok := true
	s := types.TypeString(t, func(p *types.Package) string {
		if p.Name() != "kcp" {
			ok = false
		}
		return ""
	})
	return s, ok
}

func flatDbg(f string, a ...any) {
	if os.Getenv("VERIF_DEBUG") != "" {
		fmt.Fprintf(os.Stderr, "flatreplay: "+f+"\n", a...)
	}
}

func flatReplayTest(env *Env, u *Unit, o *Oblig) (src string, ok bool) {
	defer func() {
		if !ok {
			flatDbg("%s: no replay", o.Name)
		}
	}()
	if u == nil || o.Result == "unsat" {
		return "", false
	}
	if !safetyKinds[o.Kind] && o.Kind != "ensures" {
		return "", false
	}
	key := strings.SplitN(o.Fn, "[", 2)[0]
	fn := env.funcs[key]
	if fn == nil || strings.Contains(key, "$") || fn.TypeParams().Len() > 0 {
		return "", false
	}
	con := env.con.Funcs[key]
	var recv *ssa.Parameter
	var terms []*Term
	var ranges []*Term
	type setter struct {
		code func(v int64) string
	}
	var sets []setter
	g := &goTr{env: env, vars: map[string]goVal{}}
	olds := map[string]goVal{}
	var decls, saves, callArgs []string
	for i, p := range fn.Params {
		if i == 0 && fn.Signature.Recv() != nil {
			recv = p
			continue
		}
		b, isB := p.Type().Underlying().(*types.Basic)
		if !isB || b.Info()&(types.IsInteger|types.IsBoolean) == 0 {
			return "", false
		}
		ts, ok := goTypeString(p.Type())
		if !ok {
			return "", false
		}
		name := "p_" + p.Name()
		callArgs = append(callArgs, name)
		if b.Info()&types.IsBoolean != 0 {
			terms = append(terms, mkVar("p."+p.Name(), sortBool))
			sets = append(sets, setter{func(v int64) string { return fmt.Sprintf("%s := %v", name, v != 0) }})
			g.vars[p.Name()] = goVal{code: name, kind: "bool"}
			olds[p.Name()] = goVal{code: name, kind: "bool"}
		} else {
			t := mkVar("p."+p.Name(), sortInt)
			terms = append(terms, t)
			if tf := env.te.typeFacts(p.Type(), t, mkInt(0), 0); tf != nil && !hasQuant(tf) {
				ranges = append(ranges, tf)
			}
			sets = append(sets, setter{func(v int64) string { return fmt.Sprintf("%s := %s(%d)", name, ts, v) }})
			g.vars[p.Name()] = goVal{code: "int64(" + name + ")", kind: "int"}
			olds[p.Name()] = goVal{code: "int64(" + name + ")", kind: "int"}
		}
	}
	rname := ""
	if recv != nil {
		rt := derefType(recv.Type())
		st := structOf(rt)
		if rt == nil || st == nil {
			return "", false
		}
		if n, ok := rt.(*types.Named); ok && n.TypeArgs().Len() > 0 {
			return "", false
		}
		ts, ok := goTypeString(rt)
		if !ok {
			return "", false
		}
		rname = "r_" + recv.Name()
		decls = append(decls, fmt.Sprintf("%s := new(%s)", rname, ts))
		saves = append(saves, fmt.Sprintf("old_%s := *%s\n\t_ = old_%s", rname, rname, rname))
		g.vars[recv.Name()] = goVal{code: rname, kind: "obj", typ: recv.Type()}
		olds[recv.Name()] = goVal{code: "(&old_" + rname + ")", kind: "obj", typ: recv.Type()}
		r := mkVar("p."+recv.Name(), sortInt)
		// a struct that is not object-like (no identity needed: arrays and scalars only) is
		// modelled as a record value in a copy-in/copy-out cell instead of field heaps
		asRecord := !env.te.isObjectLike(rt)
		recVal := mkVar("p."+recv.Name()+".val", env.te.sortOf(rt))
		for i := 0; i < st.NumFields(); i++ {
			f := st.Field(i)
			fnm, fso := env.te.fieldHeap(rt, i)
			fieldTerm := func() *Term {
				if asRecord {
					return mkSel(recVal, i)
				}
				return mkSelect(mkVar(fnm+"@0", fso), r)
			}
			fname := f.Name()
			switch ft := f.Type().Underlying().(type) {
			case *types.Basic:
				if ft.Info()&(types.IsInteger|types.IsBoolean) == 0 || (fso.Elem != sortInt && fso.Elem != sortBool) {
					continue
				}
				fts, ok := goTypeString(f.Type())
				if !ok {
					continue
				}
				t := fieldTerm()
				terms = append(terms, t)
				if fso.Elem == sortBool {
					sets = append(sets, setter{func(v int64) string { return fmt.Sprintf("%s.%s = %v", rname, fname, v != 0) }})
				} else {
					if tf := env.te.typeFacts(f.Type(), t, mkInt(0), 0); tf != nil && !hasQuant(tf) {
						ranges = append(ranges, tf)
					}
					sets = append(sets, setter{func(v int64) string { return fmt.Sprintf("%s.%s = %s(%d)", rname, fname, fts, v) }})
				}
			case *types.Slice:
				if fso.Elem != sortSlice {
					continue
				}
				fts, ok := goTypeString(f.Type())
				if !ok {
					continue
				}
				t := sliceLen(fieldTerm())
				terms = append(terms, t)
				ranges = append(ranges, mkLe(mkInt(0), t), mkLe(t, mkInt(1<<16)))
				sets = append(sets, setter{func(v int64) string {
					if v <= 0 || v > 1<<16 {
						return "// " + fname + ": left nil"
					}
					return fmt.Sprintf("%s.%s = make(%s, %d)", rname, fname, fts, v)
				}})
			}
		}
	}
	if len(terms) == 0 {
		return "", false
	}
	vals, okv := getValues(u, o, terms, ranges)
	if !okv {
		flatDbg("no model values for %d terms", len(terms))
		return "", false
	}
	for i, t := range terms {
		flatDbg("  %s = %d", truncate(t.String(), 120), vals[i])
	}
	var lines []string
	for i, s := range sets {
		lines = append(lines, s.code(vals[i]))
	}
	// parameters first (":=" declarations), then the receiver's fields
	sort.SliceStable(lines, func(i, j int) bool {
		return strings.Contains(lines[i], ":=") && !strings.Contains(lines[j], ":=")
	})
	// preconditions
	var pre []string
	allPre := true
	if con != nil {
		for _, cl := range con.Requires {
			g.bad, g.olds, g.lenient = "", nil, true
			v := g.ex(cl.Expr)
			g.lenient = false
			if g.bad != "" || v.kind != "bool" {
				flatDbg("precondition %s not translated: %s", cl.Src, g.bad)
				allPre = false
				continue
			}
			pre = append(pre, v.code)
		}
	}
	if o.Kind != "ensures" && len(g.skipped) > 0 {
		flatDbg("safety obligation, but %d precondition conjuncts cannot be established on a zero-value receiver", len(g.skipped))
		return "", false
	}
	post := ""
	what := "the real code panics on the counterexample"
	if o.Kind == "ensures" {
		if con == nil || !allPre {
			flatDbg("a precondition could not be translated: %s", g.bad)
			return "", false
		}
		var cl *Clause
		for _, c := range con.Ensures {
			if c.Line == o.Line {
				cl = c
			}
		}
		if cl == nil {
			return "", false
		}
		// results
		res := fn.Signature.Results()
		for i := 0; i < res.Len(); i++ {
			v := g.wrapObj(fmt.Sprintf("res%d", i), res.At(i).Type())
			g.vars[fmt.Sprintf("result%d", i)] = v
			if res.Len() == 1 {
				g.vars["result"] = v
			}
			if n := res.At(i).Name(); n != "" {
				g.vars[n] = v
			}
		}
		g.bad, g.olds = "", olds
		v := g.ex(cl.Expr)
		if g.bad != "" || v.kind != "bool" {
			flatDbg("postcondition not translated: %s", g.bad)
			return "", false
		}
		post = v.code
		what = "the postcondition is false on the counterexample"
	}
	call := ""
	nres := fn.Signature.Results().Len()
	var lhs []string
	for i := 0; i < nres; i++ {
		lhs = append(lhs, fmt.Sprintf("res%d", i))
	}
	target := fn.Name() + "(" + strings.Join(callArgs, ", ") + ")"
	if recv != nil {
		target = rname + "." + target
	}
	if nres > 0 {
		call = strings.Join(lhs, ", ") + " := " + target
		for _, l := range lhs {
			call += "\n\t_ = " + l
		}
	} else {
		call = target
	}
	var b strings.Builder
	b.WriteString("package kcp\n\nimport \"testing\"\n\n")
	b.WriteString("func vmin(a, b int64) int64 { if a < b { return a }; return b }\nfunc vmax(a, b int64) int64 { if a > b { return a }; return b }\n")
	b.WriteString("func vdiv(a, b int64) int64 { if b == 0 { return 0 }; q := a / b; if a%b < 0 { if b > 0 { q-- } else { q++ } }; return q }\n")
	b.WriteString("func vmod(a, b int64) int64 { if b == 0 { return a }; m := a % b; if m < 0 { if b > 0 { m += b } else { m -= b } }; return m }\n")
	b.WriteString("var _, _, _, _ = vmin, vmax, vdiv, vmod\n\n")
	fmt.Fprintf(&b, "// inputs and receiver fields taken from the solver's counterexample for\n// %s\n", strings.ReplaceAll(o.Name, "\n", " "))
	for _, sk := range g.skipped {
		fmt.Fprintf(&b, "// precondition conjunct not checked on the candidate (not expressible over scalars): %s\n", strings.ReplaceAll(truncate(sk, 160), "\n", " "))
	}
	b.WriteString("func TestVerifReplay(t *testing.T) {\n")
	for _, d := range decls {
		b.WriteString("\t" + d + "\n")
	}
	for _, l := range lines {
		b.WriteString("\t" + l + "\n")
	}
	for _, a := range callArgs {
		b.WriteString("\t_ = " + a + "\n")
	}
	for i, p := range pre {
		fmt.Fprintf(&b, "\tif !(%s) {\n\t\tt.Logf(\"REPLAY-CANDIDATE-REJECTED: the candidate violates precondition %d of the function\")\n\t\treturn\n\t}\n", p, i+1)
	}
	for _, s := range saves {
		b.WriteString("\t" + s + "\n")
	}
	if len(g.skipped) > 0 {
		// a panic may be due to a precondition conjunct the candidate was not checked against
		// (a nil object the zero-value receiver lacks): not judged
		b.WriteString("\tdefer func() {\n\t\tif p := recover(); p != nil {\n\t\t\tt.Logf(\"REPLAY-INCONCLUSIVE: the call panicked, but not every precondition could be established on the candidate: %v\", p)\n\t\t}\n\t}()\n")
	} else {
		b.WriteString("\tdefer func() {\n\t\tif p := recover(); p != nil {\n\t\t\tt.Fatalf(\"REPLAY-REPRODUCED: the real code panics on the counterexample: %v\", p)\n\t\t}\n\t}()\n")
	}
	b.WriteString("\t" + call + "\n")
	if post != "" {
		fmt.Fprintf(&b, "\tif !(%s) {\n\t\tt.Fatalf(\"REPLAY-REPRODUCED: %s\")\n\t}\n", post, what)
	}
	b.WriteString("}\n")
	return b.String(), true
}
