package main

// C15 (buffer half): pooled-buffer typestate, checked per function on the real SSA.
//
// Every []byte value is followed from where the function gets it (defaultBufferPool.Get(), a
// parameter, a load from a data structure) through re-slicing, conversions and local variables.
// A forward may-analysis over the control-flow graph keeps, per program point, the set of
// origins that may already have been recycled (bufferPool.Put) and the set that may have been
// stored into a data structure (handed over). Obligations, one per site:
//
//   - recycle-once:     at Put(x), no origin of x may already be recycled on any path here;
//   - no-recycle-after-hand-over: at Put(x), no origin of x may have been stored into a heap
//     structure by this function before (its new owner will recycle it);
//   - no-use-after-recycle: every later operand use (re-slice, index, call argument, copy/append,
//     store, send, return, conversion) of a value whose origin may be recycled.
//
// A value loaded from a data structure gets a new origin each time the load executes (loop
// iterations do not alias each other: unique ownership of container elements is ASSUMED, see
// DESIGN.md). Functions that recycle one of their parameters directly are summarised and their
// calls count as Put of that argument.

import (
	"fmt"
	"go/token"
	"go/types"
	"sort"
	"strings"

	"golang.org/x/tools/go/ssa"
)

type poolState struct {
	stale map[ssa.Instruction]string // Put sites whose buffer is still referenced from these fields
	dead  map[ssa.Value]bool
	moved map[ssa.Value]bool
	cell  map[*ssa.Alloc]map[ssa.Value]bool // []byte locals, and struct locals (buffers stored in their fields)
}

func newPoolState() *poolState {
	return &poolState{stale: map[ssa.Instruction]string{}, dead: map[ssa.Value]bool{}, moved: map[ssa.Value]bool{}, cell: map[*ssa.Alloc]map[ssa.Value]bool{}}
}

func (s *poolState) clone() *poolState {
	n := newPoolState()
	for k, v := range s.stale {
		n.stale[k] = v
	}
	for k, v := range s.dead {
		n.dead[k] = v
	}
	for k, v := range s.moved {
		n.moved[k] = v
	}
	for k, v := range s.cell {
		m := map[ssa.Value]bool{}
		for o := range v {
			m[o] = true
		}
		n.cell[k] = m
	}
	return n
}

// join: union; reports whether s changed.
func (s *poolState) join(o *poolState) bool {
	ch := false
	for k, v := range o.stale {
		if _, ok := s.stale[k]; !ok {
			s.stale[k] = v
			ch = true
		}
	}
	for k, v := range o.dead {
		if v && !s.dead[k] {
			s.dead[k] = true
			ch = true
		}
	}
	for k, v := range o.moved {
		if v && !s.moved[k] {
			s.moved[k] = true
			ch = true
		}
	}
	for k, v := range o.cell {
		if s.cell[k] == nil {
			s.cell[k] = map[ssa.Value]bool{}
		}
		for x := range v {
			if !s.cell[k][x] {
				s.cell[k][x] = true
				ch = true
			}
		}
	}
	return ch
}

func isBytes(t types.Type) bool {
	sl, ok := types.Unalias(t).Underlying().(*types.Slice)
	if !ok {
		return false
	}
	b, ok := sl.Elem().Underlying().(*types.Basic)
	return ok && b.Kind() == types.Uint8
}

type poolPass struct {
	allocFields   map[*ssa.Alloc][]string // locals of pointer / container type: the fields their value was loaded through
	cache         map[string]ssa.Value    // block-local: canonical address expression -> origin of its last load
	env           *Env
	recycles      map[*ssa.Function]map[int]bool // function -> parameter indexes it recycles
	obl           []*Oblig
	occ           map[string]int
	staleReported map[ssa.Instruction]bool
	staleSites    map[ssa.Instruction]string
}

// canon: a canonical text for an address / value expression built from local variables only
// ("" if it involves anything else).
func canon(v ssa.Value, allocs map[*ssa.Alloc]bool) string {
	switch x := v.(type) {
	case *ssa.Alloc:
		allocs[x] = true
		return "&" + x.Name()
	case *ssa.Const:
		return x.String()
	case *ssa.UnOp:
		if x.Op == token.MUL {
			if c := canon(x.X, allocs); c != "" {
				return "*(" + c + ")"
			}
		}
	case *ssa.IndexAddr:
		a, b := canon(x.X, allocs), canon(x.Index, allocs)
		if a != "" && b != "" {
			return a + "[" + b + "]"
		}
	case *ssa.FieldAddr:
		if a := canon(x.X, allocs); a != "" {
			return fmt.Sprintf("%s.%d", a, x.Field)
		}
	case *ssa.Slice:
		if x.Low == nil && x.High == nil && x.Max == nil {
			return canon(x.X, allocs)
		}
	}
	return ""
}

func (pp *poolPass) origins(st *poolState, v ssa.Value) []ssa.Value {
	if u, ok := v.(*ssa.UnOp); ok && u.Op == token.MUL && pp.cache != nil {
		if _, isAlloc := u.X.(*ssa.Alloc); !isAlloc && isBytes(u.Type()) {
			if c := canon(u.X, map[*ssa.Alloc]bool{}); c != "" {
				if o, ok := pp.cache[c]; ok {
					return []ssa.Value{o}
				}
			}
		}
	}
	switch x := v.(type) {
	case *ssa.Slice:
		return pp.origins(st, x.X)
	case *ssa.ChangeType:
		return pp.origins(st, x.X)
	case *ssa.Convert:
		return pp.origins(st, x.X)
	case *ssa.MakeInterface:
		return pp.origins(st, x.X)
	case *ssa.Phi:
		var out []ssa.Value
		for _, e := range x.Edges {
			out = append(out, pp.origins(st, e)...)
		}
		return out
	case *ssa.UnOp:
		if x.Op == token.MUL {
			if a, ok := x.X.(*ssa.Alloc); ok {
				var out []ssa.Value
				for o := range st.cell[a] {
					out = append(out, o)
				}
				sort.Slice(out, func(i, j int) bool { return out[i].Pos() < out[j].Pos() })
				return out
			}
			if isBytes(x.Type()) {
				return []ssa.Value{x}
			}
		}
		return nil
	case *ssa.Const:
		return nil
	}
	if v != nil && isBytes(v.Type()) {
		return []ssa.Value{v}
	}
	return nil
}

// originsDeep: also the buffers held in the fields of a local struct value (segment, sendRequest).
func (pp *poolPass) originsDeep(st *poolState, v ssa.Value) []ssa.Value {
	if isBytes(v.Type()) {
		return pp.origins(st, v)
	}
	switch x := v.(type) {
	case *ssa.MakeInterface:
		return pp.originsDeep(st, x.X)
	case *ssa.ChangeType:
		return pp.originsDeep(st, x.X)
	case *ssa.UnOp:
		if a, ok := x.X.(*ssa.Alloc); ok && x.Op == token.MUL {
			var out []ssa.Value
			for o := range st.cell[a] {
				out = append(out, o)
			}
			return out
		}
	case *ssa.Slice:
		if a := localBase(x.X); a != nil { // the argument array of a variadic call
			var out []ssa.Value
			for o := range st.cell[a] {
				out = append(out, o)
			}
			return out
		}
	}
	return nil
}

// heapFields: the struct fields on the way from an object the function did not create to the
// value v (a buffer loaded out of a container): e.g. ["elements" "shardSet"] for a packet read
// from a shard heap found in dec.shardSet. Empty if v comes from a local (a slice built here, a
// call result, a parameter).
func (pp *poolPass) heapFields(st *poolState, v ssa.Value, depth int) []string {
	if depth > 24 || v == nil {
		return nil
	}
	switch x := v.(type) {
	case *ssa.Slice:
		return pp.heapFields(st, x.X, depth+1)
	case *ssa.ChangeType:
		return pp.heapFields(st, x.X, depth+1)
	case *ssa.Convert:
		return pp.heapFields(st, x.X, depth+1)
	case *ssa.Phi:
		if len(x.Edges) > 0 {
			return pp.heapFields(st, x.Edges[0], depth+1)
		}
	case *ssa.Extract:
		return pp.heapFields(st, x.Tuple, depth+1)
	case *ssa.Next:
		return pp.heapFields(st, x.Iter, depth+1)
	case *ssa.Range:
		return pp.heapFields(st, x.X, depth+1)
	case *ssa.Lookup:
		return pp.heapFields(st, x.X, depth+1)
	case *ssa.IndexAddr:
		return pp.heapFields(st, x.X, depth+1)
	case *ssa.FieldAddr:
		name := ""
		if stt := structOf(derefType(x.X.Type())); stt != nil {
			name = stt.Field(x.Field).Name()
		}
		if _, isLocal := x.X.(*ssa.Alloc); isLocal {
			return nil
		}
		return append([]string{name}, pp.heapFields(st, x.X, depth+1)...)
	case *ssa.UnOp:
		if x.Op != token.MUL {
			return nil
		}
		if a, ok := x.X.(*ssa.Alloc); ok {
			// a local variable: where did its value come from?
			var best []string
			for o := range st.cell[a] {
				if f := pp.heapFields(st, o, depth+1); len(f) > len(best) {
					best = f
				}
			}
			if best == nil {
				best = pp.allocFields[a]
			}
			return best
		}
		return pp.heapFields(st, x.X, depth+1)
	}
	return nil
}

// localBase: the local variable an address points into (array/struct temporaries), or nil.
func localBase(a ssa.Value) *ssa.Alloc {
	switch x := a.(type) {
	case *ssa.Alloc:
		return x
	case *ssa.FieldAddr:
		return localBase(x.X)
	case *ssa.IndexAddr:
		return localBase(x.X)
	}
	return nil
}

// isSink: calls that take ownership of what they are given (containers).
func (pp *poolPass) isSink(cc *ssa.CallCommon) bool {
	if b, ok := cc.Value.(*ssa.Builtin); ok {
		if b.Name() == "append" && len(cc.Args) > 0 {
			if sl, ok := cc.Args[0].Type().Underlying().(*types.Slice); ok {
				if bb, isB := sl.Elem().Underlying().(*types.Basic); !(isB && bb.Kind() == types.Uint8) {
					return true // appending an element (a buffer or a struct holding one), not bytes
				}
			}
		}
		return false
	}
	if f := cc.StaticCallee(); f != nil {
		return f.Name() == "Push"
	}
	if cc.IsInvoke() {
		return cc.Method.Name() == "Push"
	}
	return false
}

func (pp *poolPass) isPut(c *ssa.CallCommon) bool {
	f := c.StaticCallee()
	return f != nil && pp.env.keyOf(f) == "bufferPool.Put"
}

// detach: a write to field f (or a delete/clear on the container in it) removes the references
// the recycled buffers were reachable through.
func (pp *poolPass) detach(st *poolState, f string) {
	for p, fields := range st.stale {
		for _, g := range strings.Split(fields, " <- ") {
			if g == f {
				delete(st.stale, p)
				break
			}
		}
	}
}

func (pp *poolPass) report(fn *ssa.Function, pos token.Pos, kind, desc string, ok bool) {
	key := pp.env.keyOf(fn)
	base := fmt.Sprintf("%s:pool:%q", key, kind+": "+desc)
	pp.occ[base]++
	o := &Oblig{Kind: "pool", Desc: desc, Fn: key, Pos: pp.env.posStr(pos), Goal: tTrue, PC: tTrue, Tags: []string{"C15"}}
	o.Name = fmt.Sprintf("%s#%d", base, pp.occ[base])
	if ok {
		o.Trivial, o.Result, o.Solver = true, "unsat", "typestate-pass"
	} else {
		o.Result, o.Solver, o.Goal = "violated", "typestate-pass", tFalse
		o.Output = "on some path through the function the buffer has already been recycled (or handed over) when this instruction executes"
	}
	pp.obl = append(pp.obl, o)
}

// step applies one instruction; when rep is set, obligations are reported.
func (pp *poolPass) step(fn *ssa.Function, st *poolState, in ssa.Instruction, rep bool, hasPut bool) {
	src := func() string { return pp.env.srcAt(in.Pos()) }
	use := func(v ssa.Value, what string) {
		os := pp.origins(st, v)
		if len(os) == 0 {
			return
		}
		dead := false
		for _, o := range os {
			if st.dead[o] {
				dead = true
			}
		}
		if rep && hasPut {
			pp.report(fn, in.Pos(), "no-use-after-recycle", what+" "+src(), !dead)
		}
	}
	// invalidate the block-local load cache
	switch i := in.(type) {
	case *ssa.Store:
		if a, ok := i.Addr.(*ssa.Alloc); ok {
			for c := range pp.cache {
				if strings.Contains(c, "&"+a.Name()+")") || strings.HasSuffix(c, "&"+a.Name()) || strings.Contains(c, "&"+a.Name()+"[") || strings.Contains(c, "&"+a.Name()+".") {
					delete(pp.cache, c)
				}
			}
		} else if localBase(i.Addr) == nil {
			pp.cache = map[string]ssa.Value{}
		}
	case *ssa.Call:
		if _, isB := i.Common().Value.(*ssa.Builtin); !isB && !pp.isPut(i.Common()) {
			pp.cache = map[string]ssa.Value{}
		}
	}
	switch i := in.(type) {
	case *ssa.Store:
		if a, ok := i.Addr.(*ssa.Alloc); ok {
			if !isBytes(i.Val.Type()) {
				if f := pp.heapFields(st, i.Val, 0); len(f) > 0 {
					if pp.allocFields == nil {
						pp.allocFields = map[*ssa.Alloc][]string{}
					}
					pp.allocFields[a] = f
				}
			}
			if isBytes(i.Val.Type()) {
				m := map[ssa.Value]bool{}
				for _, o := range pp.origins(st, i.Val) {
					m[o] = true
				}
				st.cell[a] = m
			}
			return
		}
		if fa, ok := i.Addr.(*ssa.FieldAddr); ok {
			if stt := structOf(derefType(fa.X.Type())); stt != nil {
				pp.detach(st, stt.Field(fa.Field).Name())
			}
		}
		if !isBytes(i.Val.Type()) {
			if _, isAlloc := i.Addr.(*ssa.Alloc); !isAlloc {
				for _, o := range pp.originsDeep(st, i.Val) {
					st.moved[o] = true
				}
			}
		}
		if isBytes(i.Val.Type()) {
			if _, isConst := i.Val.(*ssa.Const); isConst {
				return
			}
			use(i.Val, "stored")
			// a store into a field of a local struct temporary is not a hand-over yet: the struct
			// now holds the buffer
			local := false
			if a := localBase(i.Addr); a != nil {
				local = true
				if st.cell[a] == nil {
					st.cell[a] = map[ssa.Value]bool{}
				}
				for _, o := range pp.origins(st, i.Val) {
					st.cell[a][o] = true
				}
			}
			if !local {
				for _, o := range pp.origins(st, i.Val) {
					st.moved[o] = true
				}
			}
		}
	case *ssa.UnOp:
		if i.Op == token.MUL {
			if _, ok := i.X.(*ssa.Alloc); !ok && isBytes(i.Type()) {
				// the same element read again in this block (no store or call in between) is the
				// same buffer; otherwise a fresh value out of a data structure
				if c := canon(i.X, map[*ssa.Alloc]bool{}); c != "" && pp.cache != nil {
					if _, ok := pp.cache[c]; ok {
						return
					}
					pp.cache[c] = i
				}
				st.dead[i] = false
				st.moved[i] = false
			}
		}
	case *ssa.Slice:
		use(i.X, "re-sliced")
	case *ssa.IndexAddr:
		use(i.X, "indexed")
	case *ssa.Return:
		for _, r := range i.Results {
			use(r, "returned")
		}
		if rep {
			var sites []ssa.Instruction
			for p := range st.stale {
				sites = append(sites, p)
			}
			sort.Slice(sites, func(a, b int) bool { return sites[a].Pos() < sites[b].Pos() })
			for _, p := range sites {
				if !pp.staleReported[p] {
					pp.staleReported[p] = true
					pp.report(fn, p.Pos(), "no-stale-reference", "recycled buffer stays referenced from "+st.stale[p]+" at return: "+pp.env.srcAt(p.Pos()), false)
				}
			}
		}
	case *ssa.Send:
		use(i.X, "sent")
		for _, o := range pp.originsDeep(st, i.X) {
			st.moved[o] = true
		}
	case *ssa.MakeInterface:
		use(i.X, "boxed")
	case *ssa.Call:
		cc := i.Common()
		if pp.isPut(cc) && len(cc.Args) == 2 {
			os := pp.origins(st, cc.Args[1])
			dead, moved := false, false
			for _, o := range os {
				if st.dead[o] {
					dead = true
				}
				if st.moved[o] {
					moved = true
				}
			}
			if rep {
				pp.report(fn, i.Pos(), "recycle-once", src(), !dead)
				pp.report(fn, i.Pos(), "no-recycle-after-hand-over", src(), !moved)
			}
			for _, o := range os {
				st.dead[o] = true
			}
			if f := pp.heapFields(st, cc.Args[1], 0); len(f) > 0 {
				st.stale[i] = strings.Join(f, " <- ")
				if rep {
					pp.staleSites[i] = st.stale[i]
				}
			}
			return
		}
		if b, ok := cc.Value.(*ssa.Builtin); ok && (b.Name() == "delete" || b.Name() == "clear") && len(cc.Args) > 0 {
			for _, f := range pp.heapFields(st, cc.Args[0], 0) {
				pp.detach(st, f)
			}
		}
		if b, ok := cc.Value.(*ssa.Builtin); ok && (b.Name() == "len" || b.Name() == "cap") {
			return
		}
		if pp.isSink(cc) {
			for _, a := range cc.Args {
				for _, o := range pp.originsDeep(st, a) {
					if rep && hasPut && st.dead[o] {
						pp.report(fn, i.Pos(), "no-use-after-recycle", "handed to a container "+src(), false)
					}
					st.moved[o] = true
				}
			}
		}
		for k, a := range cc.Args {
			if isBytes(a.Type()) {
				use(a, "passed to "+calleeName(cc))
				if f := cc.StaticCallee(); f != nil && pp.recycles[f][k] {
					os := pp.origins(st, a)
					dead := false
					for _, o := range os {
						if st.dead[o] {
							dead = true
						}
					}
					if rep {
						pp.report(fn, i.Pos(), "recycle-once", "(callee recycles this argument) "+src(), !dead)
					}
					for _, o := range os {
						st.dead[o] = true
					}
				}
			}
		}
		if cc.Value != nil && cc.StaticCallee() == nil && !cc.IsInvoke() {
			// append etc. are builtins handled above; dynamic calls: arguments used
		}
	}
}

func calleeName(cc *ssa.CallCommon) string {
	if f := cc.StaticCallee(); f != nil {
		return f.Name()
	}
	if b, ok := cc.Value.(*ssa.Builtin); ok {
		return b.Name()
	}
	return "a function value"
}

func (pp *poolPass) analyse(fn *ssa.Function, rep bool) {
	if len(fn.Blocks) == 0 {
		return
	}
	hasPut := false
	for _, b := range fn.Blocks {
		for _, in := range b.Instrs {
			if c, ok := in.(*ssa.Call); ok {
				if pp.isPut(c.Common()) {
					hasPut = true
				}
				if f := c.Common().StaticCallee(); f != nil && len(pp.recycles[f]) > 0 {
					hasPut = true
				}
			}
		}
	}
	if !hasPut {
		return
	}
	in := map[*ssa.BasicBlock]*poolState{fn.Blocks[0]: newPoolState()}
	work := []*ssa.BasicBlock{fn.Blocks[0]}
	for n := 0; len(work) > 0 && n < 20000; n++ {
		b := work[0]
		work = work[1:]
		st := in[b].clone()
		pp.cache = map[string]ssa.Value{}
		for _, ins := range b.Instrs {
			pp.step(fn, st, ins, false, hasPut)
		}
		for k, s := range b.Succs {
			out := st
			// the branch taken when a select chose a send case: the value has been handed over
			if k == 0 && len(b.Instrs) > 0 {
				if iff, ok := b.Instrs[len(b.Instrs)-1].(*ssa.If); ok {
					if eq, ok := iff.Cond.(*ssa.BinOp); ok && eq.Op == token.EQL {
						if ex, ok := eq.X.(*ssa.Extract); ok && ex.Index == 0 {
							if sel, ok := ex.Tuple.(*ssa.Select); ok {
								if c, ok := eq.Y.(*ssa.Const); ok && c.Value != nil {
									idx := int(c.Int64())
									if idx >= 0 && idx < len(sel.States) && sel.States[idx].Dir == types.SendOnly {
										out = st.clone()
										for _, o := range pp.originsDeep(out, sel.States[idx].Send) {
											out.moved[o] = true
										}
									}
								}
							}
						}
					}
				}
			}
			if in[s] == nil {
				in[s] = out.clone()
				work = append(work, s)
			} else if in[s].join(out) {
				work = append(work, s)
			}
		}
	}
	if !rep {
		// summary: parameters recycled directly
		for _, b := range fn.Blocks {
			if in[b] == nil {
				continue
			}
			st := in[b].clone()
			pp.cache = map[string]ssa.Value{}
			for _, ins := range b.Instrs {
				if c, ok := ins.(*ssa.Call); ok && pp.isPut(c.Common()) && len(c.Common().Args) == 2 {
					for _, o := range pp.origins(st, c.Common().Args[1]) {
						if p, ok := o.(*ssa.Parameter); ok {
							for k, q := range fn.Params {
								if q == p {
									if pp.recycles[fn] == nil {
										pp.recycles[fn] = map[int]bool{}
									}
									pp.recycles[fn][k] = true
								}
							}
						}
					}
				}
				pp.step(fn, st, ins, false, hasPut)
			}
		}
		return
	}
	for _, b := range fn.Blocks {
		if in[b] == nil {
			continue
		}
		st := in[b].clone()
		pp.cache = map[string]ssa.Value{}
		for _, ins := range b.Instrs {
			pp.step(fn, st, ins, true, hasPut)
		}
	}
}

func runPoolDiscipline(env *Env) *Unit {
	u := &Unit{Key: "pool-typestate", Notes: map[string]bool{}, Trusted: map[string]bool{}, Inlined: map[string]bool{}}
	pp := &poolPass{env: env, recycles: map[*ssa.Function]map[int]bool{}, occ: map[string]int{}, staleReported: map[ssa.Instruction]bool{}, staleSites: map[ssa.Instruction]string{}}
	var keys []string
	for k := range env.funcs {
		keys = append(keys, k)
	}
	sort.Strings(keys)
	var all []*ssa.Function
	for _, k := range keys {
		fn := env.funcs[k]
		if fn == nil || len(fn.Blocks) == 0 || (fn.Pkg != env.spkg && fn.Parent() == nil) || strings.HasPrefix(k, "bufferPool.") {
			continue
		}
		all = append(all, fn)
	}
	for round := 0; round < 3; round++ { // summaries (callee recycles a parameter)
		for _, fn := range all {
			pp.analyse(fn, false)
		}
	}
	for _, fn := range all {
		pp.analyse(fn, true)
		var sites []ssa.Instruction
		for p := range pp.staleSites {
			if p.Parent() == fn && !pp.staleReported[p] {
				sites = append(sites, p)
			}
		}
		sort.Slice(sites, func(a, b int) bool { return sites[a].Pos() < sites[b].Pos() })
		for _, p := range sites {
			pp.report(fn, p.Pos(), "no-stale-reference", "the reference through "+pp.staleSites[p]+" is overwritten or removed before return: "+env.srcAt(p.Pos()), true)
		}
	}
	u.Obligs = pp.obl
	if len(pp.obl) == 0 {
		u.Unsupported = append(u.Unsupported, "no bufferPool.Put call found: the typestate pass does not bind")
	}
	return u
}
