package main

// Builtins and the (small) table of library functions modelled natively. Everything else
// from outside the package is either given a trusted contract in the spec files or havocs.

import (
	"fmt"
	"go/token"
	"go/types"
	"strings"

	"golang.org/x/tools/go/ssa"
)

type libFn func(x *Exec, fr *Frame, st *State, fn *ssa.Function, args []Val, in ssa.Instruction, rt types.Type) Val

var libTable = map[string]libFn{}

// noopLib: library functions that neither read nor write any state the contracts talk about
// (timers, error wrapping, time arithmetic). Results are unconstrained.
var noopLib = map[string]bool{
	"(*time.Timer).Stop": true, "(*time.Timer).Reset": true, "time.Until": true,
	"(time.Time).IsZero": true, "(time.Time).Add": true, "(time.Time).After": true, "(time.Time).Before": true,
	"(time.Time).Sub": true, "(time.Time).UnixMilli": true, "(time.Time).UnixNano": true, "time.Now": true, "time.Since": true,
	"github.com/pkg/errors.Wrap": true, "fmt.Sprintf": true, "fmt.Errorf": true,
	"(*golang.org/x/time/rate.Limiter).WaitN": true, "golang.org/x/time/rate.NewLimiter": true,
	"context.Background": true, "(time.Duration).Milliseconds": true,
}

func libNoop(x *Exec, fr *Frame, st *State, fn *ssa.Function, args []Val, in ssa.Instruction, rt types.Type) Val {
	x.note("library call without effect on modelled state (result unconstrained): " + fullName(fn))
	if rt == nil {
		return nil
	}
	return x.freshResult(st, rt)
}

var invokeTable = map[string]libFn{}

func init() {
	for _, n := range []string{"sync/atomic.AddUint64", "sync/atomic.AddUint32", "sync/atomic.AddInt32", "sync/atomic.AddInt64"} {
		libTable[n] = libAtomicAdd
	}
	for _, n := range []string{"sync/atomic.StoreUint64", "sync/atomic.StoreUint32", "sync/atomic.StoreInt32", "sync/atomic.StoreInt64"} {
		libTable[n] = libAtomicStore
	}
	for _, n := range []string{"sync/atomic.LoadUint64", "sync/atomic.LoadUint32", "sync/atomic.LoadInt32", "sync/atomic.LoadInt64"} {
		libTable[n] = libAtomicLoad
	}
	libTable["sync/atomic.CompareAndSwapUint64"] = libAtomicCAS
	libTable["(*sync.Mutex).Lock"] = libLock
	libTable["(*sync.Mutex).Unlock"] = libUnlock
	libTable["(*sync.RWMutex).Lock"] = libLock
	libTable["(*sync.RWMutex).Unlock"] = libUnlock
	libTable["(*sync.RWMutex).RLock"] = libLock
	libTable["(*sync.RWMutex).RUnlock"] = libUnlock
	libTable["(*sync.Once).Do"] = libOnceDo
	libTable["(*sync/atomic.Value).Load"] = libAtomicValueLoad
	libTable["(*sync/atomic.Value).Store"] = libAtomicValueStore
	for n := range noopLib {
		libTable[n] = libNoop
	}
}

// ---- atomics: sequentially consistent access to the addressed word ----

func libAtomicAdd(x *Exec, fr *Frame, st *State, fn *ssa.Function, args []Val, in ssa.Instruction, rt types.Type) Val {
	x.inAtomic++
	defer func() { x.inAtomic-- }()
	p := x.asPtr(args[0], fn.Signature.Params().At(0).Type())
	x.atomicTouch(st, p, in)
	old := x.toTerm(x.load(st, p, in.Pos(), x.src(in)), p.Typ)
	w, sg, _ := intInfo(p.Typ)
	nv := wrapInt(mkAdd(old, x.toTerm(args[1], p.Typ)), w, sg)
	x.store(st, p, nv, in.Pos(), x.src(in))
	return nv
}

func libAtomicStore(x *Exec, fr *Frame, st *State, fn *ssa.Function, args []Val, in ssa.Instruction, rt types.Type) Val {
	x.inAtomic++
	defer func() { x.inAtomic-- }()
	p := x.asPtr(args[0], fn.Signature.Params().At(0).Type())
	x.atomicTouch(st, p, in)
	x.store(st, p, args[1], in.Pos(), x.src(in))
	return nil
}

func libAtomicLoad(x *Exec, fr *Frame, st *State, fn *ssa.Function, args []Val, in ssa.Instruction, rt types.Type) Val {
	x.inAtomic++
	defer func() { x.inAtomic-- }()
	p := x.asPtr(args[0], fn.Signature.Params().At(0).Type())
	x.atomicTouch(st, p, in)
	return x.load(st, p, in.Pos(), x.src(in))
}

func libAtomicCAS(x *Exec, fr *Frame, st *State, fn *ssa.Function, args []Val, in ssa.Instruction, rt types.Type) Val {
	x.inAtomic++
	defer func() { x.inAtomic-- }()
	p := x.asPtr(args[0], fn.Signature.Params().At(0).Type())
	x.atomicTouch(st, p, in)
	old := x.toTerm(x.load(st, p, in.Pos(), x.src(in)), p.Typ)
	eq := mkEq(old, x.toTerm(args[1], p.Typ))
	x.store(st, p, mkIte(eq, x.toTerm(args[2], p.Typ), old), in.Pos(), x.src(in))
	return eq
}

// ---- atomic.Value fields: a per-field invariant on the stored interface value ----
//
//   //@ callback atomic:UDPSession.callbackForOOB
//   //@   requires <invariant over v>
//
// Store must establish it; Load returns nil or a value satisfying it.

func (x *Exec) atomicFieldKey(p *PtrVal) string {
	if p.Base == PObj && len(p.Path) == 1 && !p.Path[0].IsIdx {
		sty := structOf(p.BTyp)
		return "atomic:" + x.env.te.namedKey(p.BTyp) + "." + sty.Field(p.Path[0].Field).Name()
	}
	return ""
}

func libAtomicValueLoad(x *Exec, fr *Frame, st *State, fn *ssa.Function, args []Val, in ssa.Instruction, rt types.Type) Val {
	p := x.asPtr(args[0], fn.Signature.Recv().Type())
	x.nilCheck(st, p, in.Pos(), x.src(in))
	r := fresh("atomic.load", sortIface)
	if con := x.env.con.Callbacks[x.atomicFieldKey(p)]; con != nil {
		con.used = true
		ce := &cenv{x: x, st: st, old: st, vars: map[string]cvar{"v": {v: r, t: types.NewInterfaceType(nil, nil)}}}
		var cs []*Term
		for _, cl := range con.Requires {
			cs = append(cs, ce.evalBool(cl.Expr))
		}
		x.assume(st, mkOr(mkEq(mkSel(r, 0), mkInt(0)), mkAnd(cs...)))
	}
	return r
}

func libAtomicValueStore(x *Exec, fr *Frame, st *State, fn *ssa.Function, args []Val, in ssa.Instruction, rt types.Type) Val {
	p := x.asPtr(args[0], fn.Signature.Recv().Type())
	x.nilCheck(st, p, in.Pos(), x.src(in))
	v := x.toTerm(args[1], nil)
	x.assert(st, "nil", "atomic.Value.Store(nil) panics: "+x.src(in), mkNot(mkEq(mkSel(v, 0), mkInt(0))), in.Pos(), nil)
	if con := x.env.con.Callbacks[x.atomicFieldKey(p)]; con != nil {
		con.used = true
		ce := &cenv{x: x, st: st, old: st, vars: map[string]cvar{"v": {v: v, t: types.NewInterfaceType(nil, nil)}}}
		for _, cl := range con.Requires {
			x.assertClause(st, "atomic-invariant", "store into "+strings.TrimPrefix(x.atomicFieldKey(p), "atomic:")+" requires ", ce, cl, in.Pos())
		}
	}
	return nil
}

// ---- mutexes: ghost held flag per mutex location ----

func (x *Exec) lockKey(p *PtrVal) (string, *Term) {
	switch p.Base {
	case PObj:
		if len(p.Path) >= 1 && !p.Path[0].IsIdx {
			sty := structOf(p.BTyp)
			return "ghost:held:" + x.env.te.namedKey(p.BTyp) + "." + sty.Field(p.Path[0].Field).Name(), p.Ref
		}
	case PLocal:
		return "ghost:held:local:" + p.Cell.Name, mkInt(0)
	}
	return "", nil
}

func libLock(x *Exec, fr *Frame, st *State, fn *ssa.Function, args []Val, in ssa.Instruction, rt types.Type) Val {
	p := x.asPtr(args[0], fn.Signature.Recv().Type())
	x.nilCheck(st, p, in.Pos(), x.src(in))
	k, ref := x.lockKey(p)
	if k == "" {
		x.note("lock on unsupported mutex location ignored")
		return nil
	}
	if fn.Name() == "RLock" {
		k = strings.Replace(k, "ghost:held:", "ghost:rheld:", 1)
	}
	h := st.H(k, arraySort(sortInt, sortBool))
	if x.checkLocks() {
		x.assert(st, "lock", "not already held: "+x.src(in), mkNot(mkSelect(h, ref)), in.Pos(), nil)
	}
	st.setH(k, mkStore(h, ref, tTrue))
	x.monitorEnter(st, p, in)
	return nil
}

// monitorKey: "Struct.field" of a mutex location inside an object.
func (x *Exec) monitorKey(p *PtrVal) (string, *PtrVal) {
	if p.Base == PObj && len(p.Path) == 1 && !p.Path[0].IsIdx {
		sty := structOf(p.BTyp)
		owner := &PtrVal{Nilc: tFalse, Base: PObj, Ref: p.Ref, BTyp: p.BTyp, Typ: p.BTyp}
		return x.env.te.namedKey(p.BTyp) + "." + sty.Field(p.Path[0].Field).Name(), owner
	}
	return "", nil
}

func (x *Exec) keepOnHavoc(name string) bool {
	if strings.HasPrefix(name, "ghost:") || name == "$alloc" {
		return true
	}
	if strings.HasPrefix(name, "F:") {
		// F:Type.field -> immutable declared as Type.field (generic arguments stripped)
		k := strings.TrimPrefix(name, "F:")
		if i := strings.Index(k, "["); i >= 0 {
			if j := strings.LastIndex(k, "]"); j > i {
				k = k[:i] + k[j+1:]
			}
		}
		return x.env.con.Immutable[k]
	}
	return false
}

// monitorEnter: acquiring a lock with a declared monitor invariant forgets everything other
// goroutines may have changed (all mutable heap state) and assumes the invariant.
func (x *Exec) monitorEnter(st *State, p *PtrVal, in ssa.Instruction) {
	key, owner := x.monitorKey(p)
	mon := x.env.con.Monitors[key]
	if mon == nil {
		return
	}
	if !x.sequential {
		if x.writes != nil {
			for _, n := range heapNames {
				if !x.keepOnHavoc(n) {
					*x.writes = append(*x.writes, writeRec{n, nil})
				}
			}
		}
		alloc := x.alloc(st)
		st.havocExcept(x.keepOnHavoc)
		na := fresh("alloc", sortInt)
		x.assume(st, mkLe(alloc, na))
		st.setH("$alloc", na)
		for _, ax := range x.env.con.Axioms {
			ce := &cenv{x: x, st: st, old: st, vars: map[string]cvar{}}
			x.assume(st, ce.evalBool(ax.Expr))
		}
	} else {
		x.note("sequential mode: no interference from other goroutines at Lock (used for this call's own effects)")
	}
	ce := &cenv{x: x, st: st, old: st, vars: map[string]cvar{"self": {v: owner, t: types.NewPointer(owner.BTyp)}}}
	x.assume(st, ce.evalBool(mon.Expr))
	x.note("monitor " + key + ": state forgotten at Lock and invariant assumed; invariant re-proved at Unlock")
	if x.topFrame != nil && x.topFrame.con != nil && len(x.topFrame.con.Sections[key]) > 0 && x.dry == 0 {
		if x.sectionOld == nil {
			x.sectionOld = map[string]*State{}
		}
		x.sectionOld[key] = st.clone()
	}
}

func (x *Exec) monitorExit(st *State, p *PtrVal, in ssa.Instruction) {
	key, owner := x.monitorKey(p)
	mon := x.env.con.Monitors[key]
	if mon == nil {
		return
	}
	ce := &cenv{x: x, st: st, old: st, vars: map[string]cvar{"self": {v: owner, t: types.NewPointer(owner.BTyp)}}}
	x.assertClause(st, "monitor", "at Unlock of "+key+": ", ce, mon, in.Pos())
	// two-state clauses of the unit's contract over this critical section (old = state at Lock)
	if x.topFrame != nil && x.topFrame.con != nil && x.dry == 0 {
		if snap := x.sectionOld[key]; snap != nil {
			for _, cl := range x.topFrame.con.Sections[key] {
				sce := x.clauseEnv(x.topFrame, st, nil)
				sce.old = snap
				x.assertClause(st, "section", "critical section of "+key+": ", sce, cl, in.Pos())
			}
		}
	}
}

func libUnlock(x *Exec, fr *Frame, st *State, fn *ssa.Function, args []Val, in ssa.Instruction, rt types.Type) Val {
	p := x.asPtr(args[0], fn.Signature.Recv().Type())
	x.nilCheck(st, p, in.Pos(), x.src(in))
	k, ref := x.lockKey(p)
	if k == "" {
		return nil
	}
	if fn.Name() == "RUnlock" {
		k = strings.Replace(k, "ghost:held:", "ghost:rheld:", 1)
	}
	h := st.H(k, arraySort(sortInt, sortBool))
	if x.checkLocks() {
		x.assert(st, "lock", "held at unlock: "+x.src(in), mkSelect(h, ref), in.Pos(), nil)
	}
	x.monitorExit(st, p, in)
	st.setH(k, mkStore(h, ref, tFalse))
	return nil
}

func (x *Exec) checkLocks() bool { return x.lockMode }

func libOnceDo(x *Exec, fr *Frame, st *State, fn *ssa.Function, args []Val, in ssa.Instruction, rt types.Type) Val {
	cv, ok := args[1].(*ClosureVal)
	if !ok {
		x.havocUnknown(st, "sync.Once.Do with non-literal function")
		return nil
	}
	// ghost flag "this Once has fired" (monotone, so what this thread knows stays true under
	// interference): the function runs only if the flag is not known to be set, and then under
	// an arbitrary condition (another goroutine may have fired it first)
	cond := fresh("once.first", sortBool)
	if p := x.asPtr(args[0], fn.Signature.Recv().Type()); p != nil && p.Base == PObj && len(p.Path) == 1 && !p.Path[0].IsIdx {
		sty := structOf(p.BTyp)
		hn := "ghost:once:" + x.env.te.namedKey(p.BTyp) + "." + sty.Field(p.Path[0].Field).Name()
		h := st.H(hn, arraySort(sortInt, sortBool))
		if x.sequential {
			cond = mkNot(mkSelect(h, p.Ref)) // no other goroutine: fires exactly if not yet fired
		} else {
			cond = mkAnd(mkNot(mkSelect(h, p.Ref)), cond)
		}
		st.setH(hn, mkStore(h, p.Ref, tTrue))
	}
	x.note("sync.Once.Do: runs the function only if the Once is not known to have fired, under an arbitrary condition")
	x.under(st, cond, func(sub *State) {
		x.callFunc(fr, sub, cv.Fn, cv.Bindings, nil, in, nil)
	})
	return nil
}

// ---- builtins ----

func (x *Exec) execBuiltin(fr *Frame, st *State, name string, cc *ssa.CallCommon, args []Val, in ssa.Instruction, rt types.Type) Val {
	te := x.env.te
	pos := in.Pos()
	argT := func(i int) types.Type { return types.Unalias(cc.Args[i].Type()) }
	switch name {
	case "len", "cap":
		t := argT(0)
		switch u := t.Underlying().(type) {
		case *types.Slice:
			s := x.toTerm(args[0], t)
			if name == "len" {
				return sliceLen(s)
			}
			return sliceCap(s)
		case *types.Basic:
			return strLen(x.toTerm(args[0], t))
		case *types.Array:
			return mkInt(u.Len())
		case *types.Pointer:
			return mkInt(u.Elem().Underlying().(*types.Array).Len())
		case *types.Map:
			m := x.toTerm(args[0], t)
			ln, ls := te.mapLenHeap(u, x.regionOf(cc.Args[0]))
			v := mkSelect(st.H(ln, ls), m)
			x.assume(st, mkLe(mkInt(0), v))
			return v
		case *types.Chan:
			ch := x.toTerm(args[0], t)
			c := mkApp("chan.cap", sortInt, ch)
			x.assume(st, mkLe(mkInt(0), c))
			if name == "cap" {
				return c
			}
			l := fresh("chan.len", sortInt)
			x.assume(st, mkAnd(mkLe(mkInt(0), l), mkLe(l, c)))
			if key := x.chanKey(cc.Args[0]); key != "" && x.env.con.SoleConsumer[key] != "" && x.env.con.SoleConsumer[key] == strings.SplitN(x.topKey(), "$", 2)[0] {
				// only this function receives from the channel, so a length it has observed is a
				// lower bound until its own next receive (others can only add): ghost chanmin
				h := st.H("ghost:chanmin", arraySort(sortInt, sortInt))
				old := mkSelect(h, ch)
				x.assume(st, mkLe(old, l))
				st.setH("ghost:chanmin", mkStore(h, ch, l))
			}
			if key := x.chanKey(cc.Args[0]); key != "" && x.env.con.SoleProducer[key] != "" && x.env.con.SoleProducer[key] == strings.SplitN(x.topKey(), "$", 2)[0] {
				// only this function sends on the channel, so a length it has observed is an upper
				// bound until its own next send (others can only take): ghost chanmax
				h := st.H("ghost:chanmax", arraySort(sortInt, sortInt))
				st.setH("ghost:chanmax", mkStore(h, ch, l))
			}
			return l
		}
		x.unsup("%s of %v", name, t)
	case "min", "max":
		cur := x.toTerm(args[0], argT(0))
		for i := 1; i < len(args); i++ {
			o := x.toTerm(args[i], argT(i))
			if cur.Sort != sortInt {
				x.unsup("min/max on non-integers")
			}
			if name == "min" {
				cur = mkMin(cur, o)
			} else {
				cur = mkMax(cur, o)
			}
		}
		return cur
	case "copy":
		dt := argT(0).Underlying().(*types.Slice)
		d := x.toTerm(args[0], argT(0))
		var n *Term
		if _, isStr := argT(1).Underlying().(*types.Basic); isStr {
			s := x.toTerm(args[1], argT(1))
			n = mkMin(sliceLen(d), strLen(s))
			x.copyInto(st, dt.Elem(), d, nil, n, pos)
		} else {
			s := x.toTerm(args[1], argT(1))
			n = mkMin(sliceLen(d), sliceLen(s))
			if x.concrete && isInt(n) && isByte(dt.Elem()) && n.Val.Int64() <= 4096 {
				// instantiated units: byte-exact copy (memmove: all source bytes are read first)
				cnt := int(n.Val.Int64())
				vals := make([]*Term, cnt)
				for k := range vals {
					vals[k] = x.byteAt(st, s, k)
				}
				x.writeBytes(st, d, vals, pos)
				return n
			}
			x.copyInto(st, dt.Elem(), d, s, n, pos)
		}
		return n
	case "clear":
		switch u := argT(0).Underlying().(type) {
		case *types.Slice:
			s := x.toTerm(args[0], argT(0))
			x.fillZero(st, u.Elem(), s, pos)
		case *types.Map:
			m := x.toTerm(args[0], argT(0))
			reg := x.regionOf(cc.Args[0])
			dn, ds, _, _ := te.mapHeaps(u, reg)
			x.checkWrite(st, dn, m, pos)
			st.setH(dn, mkStore(st.H(dn, ds), m, mkConstArr(ds.Elem, tFalse)))
			ln, ls := te.mapLenHeap(u, reg)
			st.setH(ln, mkStore(st.H(ln, ls), m, mkInt(0)))
		}
		return nil
	case "append":
		return x.execAppend(st, argT(0), x.toTerm(args[0], argT(0)), args[1], argT(1), pos, x.src(in))
	case "delete":
		mt := argT(0).Underlying().(*types.Map)
		m := x.toTerm(args[0], argT(0))
		k := x.toTerm(args[1], mt.Key())
		x.under(st, mkNot(mkEq(m, mkInt(0))), func(sub *State) {
			x.mapStore(sub, mt, x.regionOf(cc.Args[0]), m, k, nil, false, pos)
		})
		return nil
	case "close":
		// monotone ghost flag: this channel is known to be closed
		ch := x.toTerm(args[0], argT(0))
		h := st.H("ghost:closed", arraySort(sortInt, sortBool))
		st.setH("ghost:closed", mkStore(h, ch, tTrue))
		x.note("close(chan): only the ghost flag closed(ch) is modelled")
		return nil
	case "print", "println":
		return nil
	case "ssa:wrapnilchk":
		p := x.asPtr(args[0], argT(0))
		x.nilCheck(st, p, pos, x.src(in))
		return args[0]
	case "ssa:deferstack":
		return mkInt(0)
	case "recover":
		return te.zero(rt)
	}
	x.unsup("builtin %s", name)
	return nil
}

// copyInto: dst[0..n) = src[0..n) (src==nil: unconstrained bytes), memmove semantics.
func (x *Exec) copyInto(st *State, et types.Type, d, s, n *Term, pos token.Pos) {
	te := x.env.te
	hn, so := te.elemHeap(et)
	h := st.H(hn, so)
	if x.writes != nil {
		*x.writes = append(*x.writes, writeRec{hn, sliceRef(d)})
	}
	if x.dry > 0 {
		return
	}
	if x.modCheck {
		ok := x.writeAllowed(st, hn, sliceRef(d))
		if ok != tTrue {
			x.assert(st, "frame", "write to "+hn+" (copy)", mkOr(mkLe(n, mkInt(0)), ok), pos, nil)
		}
	}
	oldD := mkSelect(h, sliceRef(d))
	nd := fresh("copy", so.Elem)
	j := mkBound("j", sortInt)
	inR := mkAnd(mkLe(sliceOff(d), j), mkLt(j, mkAdd(sliceOff(d), n)))
	var body *Term
	if s != nil {
		oldS := mkSelect(h, sliceRef(s))
		srcAt := mkSelect(oldS, mkAdd(mkSub(j, sliceOff(d)), sliceOff(s)))
		body = mkEq(mkSelect(nd, j), mkIte(inR, srcAt, mkSelect(oldD, j)))
	} else {
		body = mkImp(mkNot(inR), mkEq(mkSelect(nd, j), mkSelect(oldD, j)))
	}
	x.assume(st, mkForall([]*Term{j}, body))
	st.setH(hn, mkStore(h, sliceRef(d), nd))
}

func (x *Exec) fillZero(st *State, et types.Type, s *Term, pos token.Pos) {
	te := x.env.te
	hn, so := te.elemHeap(et)
	h := st.H(hn, so)
	if x.writes != nil {
		*x.writes = append(*x.writes, writeRec{hn, sliceRef(s)})
	}
	if x.dry > 0 {
		return
	}
	if x.modCheck {
		ok := x.writeAllowed(st, hn, sliceRef(s))
		if ok != tTrue {
			x.assert(st, "frame", "write to "+hn+" (clear)", mkOr(mkLe(sliceLen(s), mkInt(0)), ok), pos, nil)
		}
	}
	old := mkSelect(h, sliceRef(s))
	nd := fresh("clear", so.Elem)
	j := mkBound("j", sortInt)
	inR := mkAnd(mkLe(sliceOff(s), j), mkLt(j, mkAdd(sliceOff(s), sliceLen(s))))
	x.assume(st, mkForall([]*Term{j}, mkEq(mkSelect(nd, j), mkIte(inR, te.zero(et), mkSelect(old, j)))))
	st.setH(hn, mkStore(h, sliceRef(s), nd))
}

// execAppend models append(s, t...).
func (x *Exec) execAppend(st *State, sliceT types.Type, s *Term, tv Val, tT types.Type, pos token.Pos, desc string) Val {
	te := x.env.te
	et := sliceT.Underlying().(*types.Slice).Elem()
	hn, so := te.elemHeap(et)
	var t *Term
	var n *Term
	fromStr := false
	if _, isStr := tT.Underlying().(*types.Basic); isStr {
		fromStr = true
		n = strLen(x.toTerm(tv, tT))
	} else {
		t = x.toTerm(tv, tT)
		n = sliceLen(t)
	}
	newLen := mkAdd(sliceLen(s), n)
	fits := mkLe(newLen, sliceCap(s))
	h := st.H(hn, so)
	if x.writes != nil {
		*x.writes = append(*x.writes, writeRec{hn, sliceRef(s)}, writeRec{"$alloc", nil})
	}
	// fresh backing array in case of growth
	a := x.alloc(st)
	r := mkAdd(a, mkInt(1))
	st.setH("$alloc", mkIte(fits, a, r))
	newCap := fresh("append.cap", sortInt)
	if x.dry == 0 {
		x.assume(st, mkAnd(mkLe(newLen, newCap), mkImp(mkNot(fits), mkEq(objlen(r), newCap))))
		if x.modCheck {
			ok := x.writeAllowed(st, hn, sliceRef(s))
			if ok != tTrue {
				x.assert(st, "frame", "write to "+hn+" (append in place)", mkOr(mkNot(fits), mkLe(n, mkInt(0)), ok), pos, nil)
			}
		}
	}
	res := mkIte(fits,
		mkSlice(sliceRef(s), sliceOff(s), newLen, sliceCap(s)),
		mkSlice(r, mkInt(0), newLen, newCap))
	if x.dry > 0 {
		st.setH(hn, fresh("dry.append", so))
		return res
	}
	oldS := mkSelect(h, sliceRef(s))
	nd := fresh("append", so.Elem)
	j := mkBound("j", sortInt)
	roff := sliceOff(res)
	inOld := mkAnd(mkLe(roff, j), mkLt(j, mkAdd(roff, sliceLen(s))))
	inNew := mkAnd(mkLe(mkAdd(roff, sliceLen(s)), j), mkLt(j, mkAdd(roff, newLen)))
	oldAt := mkSelect(oldS, mkAdd(mkSub(j, roff), sliceOff(s)))
	var body *Term
	if fromStr {
		body = mkAnd(mkImp(inOld, mkEq(mkSelect(nd, j), oldAt)),
			mkImp(mkAnd(fits, mkNot(inOld), mkNot(inNew)), mkEq(mkSelect(nd, j), mkSelect(oldS, j))))
	} else {
		srcArr := mkSelect(h, sliceRef(t))
		newAt := mkSelect(srcArr, mkAdd(mkSub(j, mkAdd(roff, sliceLen(s))), sliceOff(t)))
		body = mkEq(mkSelect(nd, j), mkIte(inOld, oldAt, mkIte(inNew, newAt, mkIte(fits, mkSelect(oldS, j), te.zero(et)))))
	}
	x.assume(st, mkForall([]*Term{j}, body))
	st.setH(hn, mkStore(h, sliceRef(res), nd))
	_ = fmt.Sprint
	return res
}

// ---- encoding/binary.LittleEndian: exact byte-level semantics (quantifier-free) ----

func init() {
	for _, n := range []struct {
		name string
		w    int
	}{{"Uint16", 2}, {"Uint32", 4}, {"Uint64", 8}} {
		w := n.w
		libTable["(encoding/binary.littleEndian)."+n.name] = func(x *Exec, fr *Frame, st *State, fn *ssa.Function, args []Val, in ssa.Instruction, rt types.Type) Val {
			b := x.toTerm(args[1], nil)
			x.assert(st, "index", x.src(in), mkLe(mkInt(int64(w)), sliceLen(b)), in.Pos(), nil)
			bt := types.Universe.Lookup("byte").Type()
			var sum *Term = mkInt(0)
			for k := 0; k < w; k++ {
				by := x.sliceAt(st, b, bt, mkInt(int64(k)))
				x.assume(st, inRange(by, 8, false))
				sum = mkAdd(sum, mkMul(by, mkBig(pow2(8*k))))
			}
			return sum
		}
		libTable["(encoding/binary.littleEndian).Put"+n.name] = func(x *Exec, fr *Frame, st *State, fn *ssa.Function, args []Val, in ssa.Instruction, rt types.Type) Val {
			b := x.toTerm(args[1], nil)
			v := x.toTerm(args[2], nil)
			x.assert(st, "index", x.src(in), mkLe(mkInt(int64(w)), sliceLen(b)), in.Pos(), nil)
			bt := types.Universe.Lookup("byte").Type()
			hn, so := x.env.te.elemHeap(bt)
			x.checkWrite(st, hn, sliceRef(b), in.Pos())
			h := st.H(hn, so)
			arr := mkSelect(h, sliceRef(b))
			for k := 0; k < w; k++ {
				by := mkMod(mkDiv(v, mkBig(pow2(8*k))), mkInt(256))
				arr = mkStore(arr, mkAdd(sliceOff(b), mkInt(int64(k))), by)
			}
			st.setH(hn, mkStore(h, sliceRef(b), arr))
			x.unit.Trusted["encoding/binary.LittleEndian (built-in byte-level semantics)"] = true
			return nil
		}
	}
}

// ---- crypto primitives (C08): byte-exact models with uninterpreted ciphers ----
//
// A block cipher is an uninterpreted function E(block object, k, b0..b_{bs-1}) giving output
// byte k of the encryption of the input block: every result holds for every cipher and key.
// xor on bytes is the uninterpreted bxor8 with commutativity built into the constructor.

func isByte(t types.Type) bool {
	b, ok := t.Underlying().(*types.Basic)
	return ok && b.Kind() == types.Uint8
}

func bxor8(a, b *Term) *Term {
	if a.id > b.id {
		a, b = b, a
	}
	return mkApp("bxor8", sortInt, a, b)
}

func blockE(self *Term, k int, in []*Term) *Term {
	args := append([]*Term{self, mkInt(int64(k))}, in...)
	return mkApp(fmt.Sprintf("blk.E%d", len(in)), sortInt, args...)
}

func (x *Exec) byteAt(st *State, s *Term, k int) *Term {
	bt := types.Universe.Lookup("byte").Type()
	return x.sliceAt(st, s, bt, mkInt(int64(k)))
}

// overlapOK: the two n-byte windows start at the same place or do not overlap (the standard
// library panics on inexact overlap).
func overlapOK(a, b *Term, n *Term) *Term {
	same := mkAnd(mkEq(sliceRef(a), sliceRef(b)), mkEq(sliceOff(a), sliceOff(b)))
	disj := mkOr(mkNot(mkEq(sliceRef(a), sliceRef(b))),
		mkLe(mkAdd(sliceOff(a), n), sliceOff(b)), mkLe(mkAdd(sliceOff(b), n), sliceOff(a)))
	return mkOr(mkLe(n, mkInt(0)), same, disj)
}

func (x *Exec) writeBytes(st *State, d *Term, vals []*Term, pos token.Pos) {
	bt := types.Universe.Lookup("byte").Type()
	hn, so := x.env.te.elemHeap(bt)
	if len(vals) > 0 {
		x.checkWrite(st, hn, sliceRef(d), pos)
	}
	h := st.H(hn, so)
	arr := mkSelect(h, sliceRef(d))
	for k, v := range vals {
		arr = mkStore(arr, mkAdd(sliceOff(d), mkInt(int64(k))), v)
	}
	st.setH(hn, mkStore(h, sliceRef(d), arr))
}

func init() {
	libTable["crypto/subtle.XORBytes"] = func(x *Exec, fr *Frame, st *State, fn *ssa.Function, args []Val, in ssa.Instruction, rt types.Type) Val {
		d, a, b := x.toTerm(args[0], nil), x.toTerm(args[1], nil), x.toTerm(args[2], nil)
		n := mkMin(sliceLen(a), sliceLen(b))
		x.assert(st, "panic", "subtle.XORBytes: dst too short "+x.src(in), mkLe(n, sliceLen(d)), in.Pos(), nil)
		x.assert(st, "panic", "subtle.XORBytes: inexact overlap "+x.src(in), mkAnd(overlapOK(d, a, n), overlapOK(d, b, n)), in.Pos(), nil)
		x.unit.Trusted["crypto/subtle.XORBytes (built-in byte-level semantics)"] = true
		if isInt(n) {
			cnt := int(n.Val.Int64())
			vals := make([]*Term, cnt)
			for k := 0; k < cnt; k++ {
				vals[k] = bxor8(x.byteAt(st, a, k), x.byteAt(st, b, k))
			}
			x.writeBytes(st, d, vals, in.Pos())
			return n
		}
		// symbolic length: dst[0..n) becomes xor of the inputs (quantified), rest unchanged
		bt := types.Universe.Lookup("byte").Type()
		hn, so := x.env.te.elemHeap(bt)
		x.checkWrite(st, hn, sliceRef(d), in.Pos())
		h := st.H(hn, so)
		old := mkSelect(h, sliceRef(d))
		nd := fresh("xor", so.Elem)
		j := mkBound("j", sortInt)
		inR := mkAnd(mkLe(sliceOff(d), j), mkLt(j, mkAdd(sliceOff(d), n)))
		rel := mkSub(j, sliceOff(d))
		av := mkSelect(mkSelect(h, sliceRef(a)), mkAdd(sliceOff(a), rel))
		bv := mkSelect(mkSelect(h, sliceRef(b)), mkAdd(sliceOff(b), rel))
		x.assume(st, mkForall([]*Term{j}, mkEq(mkSelect(nd, j), mkIte(inR, mkApp("bxor8", sortInt, av, bv), mkSelect(old, j)))))
		st.setH(hn, mkStore(h, sliceRef(d), nd))
		return n
	}
	invokeTable["cipher.Block.BlockSize"] = func(x *Exec, fr *Frame, st *State, fn *ssa.Function, args []Val, in ssa.Instruction, rt types.Type) Val {
		self := x.toTerm(args[0], nil)
		r := mkApp("blk.size", sortInt, self)
		x.assume(st, mkLe(mkInt(1), r))
		return r
	}
	invokeTable["cipher.Block.Encrypt"] = func(x *Exec, fr *Frame, st *State, fn *ssa.Function, args []Val, in ssa.Instruction, rt types.Type) Val {
		self := x.toTerm(args[0], nil)
		d, s := x.toTerm(args[1], nil), x.toTerm(args[2], nil)
		bsT := mkApp("blk.size", sortInt, self)
		x.unit.Trusted["crypto/cipher.Block.Encrypt: uninterpreted permutation, panics on short blocks / inexact overlap"] = true
		bs := 0
		if x.inst != nil && x.inst.BS > 0 {
			bs = x.inst.BS
			x.assume(st, mkEq(bsT, mkInt(int64(bs))))
			bsT = mkInt(int64(bs))
		}
		x.assert(st, "panic", "cipher.Block.Encrypt: input not full block "+x.src(in), mkLe(bsT, sliceLen(s)), in.Pos(), nil)
		x.assert(st, "panic", "cipher.Block.Encrypt: output not full block "+x.src(in), mkLe(bsT, sliceLen(d)), in.Pos(), nil)
		x.assert(st, "panic", "cipher.Block.Encrypt: inexact overlap "+x.src(in), overlapOK(d, s, bsT), in.Pos(), nil)
		if bs > 0 {
			inb := make([]*Term, bs)
			for k := range inb {
				inb[k] = x.byteAt(st, s, k)
			}
			vals := make([]*Term, bs)
			for k := range vals {
				vals[k] = blockE(self, k, inb)
			}
			x.writeBytes(st, d, vals, in.Pos())
			return nil
		}
		// block size not fixed: the destination block becomes unknown
		bt := types.Universe.Lookup("byte").Type()
		hn, so := x.env.te.elemHeap(bt)
		x.checkWrite(st, hn, sliceRef(d), in.Pos())
		h := st.H(hn, so)
		old := mkSelect(h, sliceRef(d))
		nd := fresh("blk", so.Elem)
		j := mkBound("j", sortInt)
		inR := mkAnd(mkLe(sliceOff(d), j), mkLt(j, mkAdd(sliceOff(d), bsT)))
		x.assume(st, mkForall([]*Term{j}, mkImp(mkNot(inR), mkEq(mkSelect(nd, j), mkSelect(old, j)))))
		st.setH(hn, mkStore(h, sliceRef(d), nd))
		return nil
	}
	libTable["golang.org/x/crypto/salsa20.XORKeyStream"] = func(x *Exec, fr *Frame, st *State, fn *ssa.Function, args []Val, in ssa.Instruction, rt types.Type) Val {
		out, inp, nonce := x.toTerm(args[0], nil), x.toTerm(args[1], nil), x.toTerm(args[2], nil)
		n := sliceLen(inp)
		x.unit.Trusted["x/crypto/salsa20.XORKeyStream: uninterpreted keystream of (nonce, key); panics on short output / inexact overlap / bad nonce length"] = true
		x.assert(st, "panic", "salsa20: output smaller than input "+x.src(in), mkLe(n, sliceLen(out)), in.Pos(), nil)
		x.assert(st, "panic", "salsa20: inexact overlap "+x.src(in), overlapOK(out, inp, n), in.Pos(), nil)
		x.assert(st, "panic", "salsa20: nonce must be 8 or 24 bytes "+x.src(in), mkOr(mkEq(sliceLen(nonce), mkInt(8)), mkEq(sliceLen(nonce), mkInt(24))), in.Pos(), nil)
		keyp := x.asPtr(args[3], fn.Signature.Params().At(3).Type())
		key, _ := x.loadTerm(st, keyp)
		if isInt(n) && isInt(sliceLen(nonce)) {
			nb := make([]*Term, int(sliceLen(nonce).Val.Int64()))
			for k := range nb {
				nb[k] = x.byteAt(st, nonce, k)
			}
			cnt := int(n.Val.Int64())
			vals := make([]*Term, cnt)
			for k := 0; k < cnt; k++ {
				ks := mkApp(fmt.Sprintf("salsa.KS%d", len(nb)), sortInt, append([]*Term{key, mkInt(int64(k))}, nb...)...)
				vals[k] = bxor8(x.byteAt(st, inp, k), ks)
			}
			x.writeBytes(st, out, vals, in.Pos())
			return nil
		}
		bt := types.Universe.Lookup("byte").Type()
		hn, so := x.env.te.elemHeap(bt)
		x.checkWrite(st, hn, sliceRef(out), in.Pos())
		h := st.H(hn, so)
		old := mkSelect(h, sliceRef(out))
		nd := fresh("salsa", so.Elem)
		j := mkBound("j", sortInt)
		inR := mkAnd(mkLe(sliceOff(out), j), mkLt(j, mkAdd(sliceOff(out), n)))
		x.assume(st, mkForall([]*Term{j}, mkImp(mkNot(inR), mkEq(mkSelect(nd, j), mkSelect(old, j)))))
		st.setH(hn, mkStore(h, sliceRef(out), nd))
		return nil
	}
}

// cfbSpec: textbook full-block CFB with the package's fixed IV, as byte terms.
// enc: C_i = P_i ^ E(C_{i-1}); dec: P_i = C_i ^ E(C_{i-1}); C_0's predecessor is IV[0:bs); the
// final partial block is truncated.
func cfbSpec(self *Term, in []*Term, iv []*Term, bs int, enc bool) []*Term {
	out := make([]*Term, len(in))
	prev := iv[:bs]
	for base := 0; base < len(in); base += bs {
		end := base + bs
		if end > len(in) {
			end = len(in)
		}
		for k := base; k < end; k++ {
			out[k] = bxor8(in[k], blockE(self, k-base, prev))
		}
		if end-base == bs {
			if enc {
				prev = out[base:end]
			} else {
				prev = in[base:end]
			}
		}
	}
	return out
}
