package main

// Replaying a failed obligation against the real code: a test file is injected into the package
// with `go test -overlay` (nothing is written to the repository) and run; the violation counts
// as reproduced only if the real code misbehaves in that run.

import (
	"encoding/json"
	"flag"
	"fmt"
	"os"
	"os/exec"
	"path/filepath"
	"regexp"
	"strconv"
	"strings"
)

var replayBudget = 2 // replays per check run (each costs a package test build)

type replayResult struct {
	Attempted  bool              `json:"attempted"`
	Reproduced bool              `json:"reproduced"`
	Command    string            `json:"command,omitempty"`
	Output     string            `json:"output,omitempty"`
	Test       string            `json:"test_source,omitempty"`
	Why        string            `json:"why_not,omitempty"`
	Extra      []string          `json:"extra_args,omitempty"`
	Marker     string            `json:"reproduced_if_output_has,omitempty"`
	Overlay    map[string]string `json:"extra_overlay_files,omitempty"` // repository files replaced for the replay run only
	full       string
}

var replayCache = map[string]replayResult{}

// extraOverlay: further files replaced for a replay run (path relative to the repository -> content).
var extraOverlay map[string]string

func runReplayTest(repo, testSrc string, extra ...string) (res replayResult) {
	if r, ok := replayCache[testSrc]; ok {
		return r
	}
	defer func() {
		if res.Attempted {
			replayCache[testSrc] = res
		}
	}()
	res = replayResult{Test: testSrc, Extra: extra, Overlay: extraOverlay}
	if replayBudget <= 0 {
		res.Why = "replay budget of this run used up by earlier violations"
		return res
	}
	replayBudget--
	dir, err := os.MkdirTemp("", "kcpreplay")
	if err != nil {
		res.Why = err.Error()
		return res
	}
	defer os.RemoveAll(dir)
	tf := filepath.Join(dir, "zz_verif_replay_test.go")
	os.WriteFile(tf, []byte(testSrc), 0o644)
	abs, _ := filepath.Abs(repo)
	repl := map[string]string{filepath.Join(abs, "zz_verif_replay_test.go"): tf}
	for rel, content := range extraOverlay {
		f := filepath.Join(dir, "ov_"+filepath.Base(rel))
		os.WriteFile(f, []byte(content), 0o644)
		repl[filepath.Join(abs, rel)] = f
	}
	ov, _ := json.Marshal(map[string]any{"Replace": repl})
	ovf := filepath.Join(dir, "overlay.json")
	os.WriteFile(ovf, ov, 0o644)
	args := []string{"test", "-overlay", ovf, "-vet=off", "-count=1", "-timeout", "600s"}
	hasRun := false
	for _, e := range extra {
		if e == "-run" {
			hasRun = true
		}
	}
	if !hasRun {
		args = append(args, "-run", "^TestVerifReplay$")
	}
	args = append(args, extra...)
	args = append(args, ".")
	cmd := exec.Command("go", args...)
	cmd.Dir = abs
	cmd.Env = append(os.Environ(), "GOFLAGS=-mod=mod", "GOPROXY=off")
	out, _ := cmd.CombinedOutput()
	res.Attempted = true
	res.Command = "go " + strings.Join(args, " ") + "   (in " + abs + ", overlay injects the test source below as zz_verif_replay_test.go)"
	res.Output = truncate(string(out), 6000)
	res.Reproduced = strings.Contains(string(out), "REPLAY-REPRODUCED")
	res.full = string(out)
	if !res.Reproduced {
		res.Why = "the real code did not misbehave on the replayed input"
	}
	return res
}

// cmdReplay re-runs the replay recorded in a replay file against the current tree.
func cmdReplay(args []string) {
	fs := flag.NewFlagSet("replay", flag.ExitOnError)
	file := fs.String("file", "", "replay file written by a failed check")
	repo := fs.String("repo", "/repo", "repository")
	fs.Parse(args)
	b, err := os.ReadFile(*file)
	if err != nil {
		fmt.Println("cannot read replay file:", err)
		os.Exit(2)
	}
	var rec struct {
		Property   string       `json:"property"`
		Obligation string       `json:"obligation"`
		Result     string       `json:"result"`
		Solver     string       `json:"solver"`
		Output     string       `json:"solver_output"`
		Replay     replayResult `json:"replay"`
	}
	if err := json.Unmarshal(b, &rec); err != nil {
		fmt.Println("bad replay file:", err)
		os.Exit(2)
	}
	fmt.Printf("property=%s obligation=%s solver=%s result=%s\n", rec.Property, rec.Obligation, rec.Solver, rec.Result)
	if rec.Replay.Test == "" {
		fmt.Println("no executable replay was recorded for this obligation (no-failing-input-found); solver output:")
		fmt.Println(rec.Output)
		fmt.Printf("re-run ./check %s to re-generate and re-discharge the obligation from the current tree\n", rec.Property)
		os.Exit(1)
	}
	extraOverlay = rec.Replay.Overlay
	r := runReplayTest(*repo, rec.Replay.Test, rec.Replay.Extra...)
	if rec.Replay.Marker != "" {
		r.Reproduced = strings.Contains(r.full, "DATA RACE") && strings.Contains(r.full, rec.Replay.Marker)
	}
	if strings.Contains(r.full, "BOUNDED-VIOLATION") {
		r.Reproduced = true
	}
	fmt.Println(r.Command)
	fmt.Println(r.Output)
	if r.Reproduced {
		fmt.Printf("VIOLATION property=%s replay=%s\n", rec.Property, *file)
		os.Exit(1)
	}
	fmt.Println("not reproduced on the current tree")
}

var cfbNameRe = regexp.MustCompile(`^([A-Za-z0-9_.]+)@len=(\d+),(in-place|out-of-place):`)

// cfbReplayTest: the failed instance (function, length, aliasing mode) is run on the real code
// with real ciphers (AES / Blowfish / Salsa20) and patterned contents and compared with
// crypto/cipher's CFB (or the stream cipher's definition).
func cfbReplayTest(name string) (string, bool) {
	m := cfbNameRe.FindStringSubmatch(name)
	if m == nil {
		return "", false
	}
	n, _ := strconv.Atoi(m[2])
	return fmt.Sprintf(cfbReplayTmpl, m[1], n, m[3] == "in-place"), true
}

const cfbReplayTmpl = `package kcp

import (
	"bytes"
	"crypto/aes"
	"crypto/cipher"
	"testing"

	"golang.org/x/crypto/blowfish"
	"golang.org/x/crypto/salsa20"
)

func TestVerifReplay(t *testing.T) {
	fn, n, inplace := %q, %d, %v
	key := []byte("0123456789abcdef0123456789abcdef")
	src := make([]byte, n)
	for i := range src {
		src[i] = byte(i*7 + 3)
	}
	orig := append([]byte(nil), src...)
	dst := src
	if !inplace {
		dst = make([]byte, n)
		for i := range dst {
			dst[i] = 0xA5
		}
	}
	want := make([]byte, n)
	defer func() {
		if r := recover(); r != nil {
			t.Fatalf("REPLAY-REPRODUCED: %%s panics on length %%d: %%v", fn, n, r)
		}
	}()
	b16, _ := aes.NewCipher(key[:16])
	b8, _ := blowfish.NewCipher(key[:16])
	switch fn {
	case "encrypt16":
		cipher.NewCFBEncrypter(b16, initialVector[:16]).XORKeyStream(want, orig)
		encrypt16(b16, dst, src, make([]byte, 16))
	case "decrypt16":
		cipher.NewCFBDecrypter(b16, initialVector[:16]).XORKeyStream(want, orig)
		decrypt16(b16, dst, src, make([]byte, 32))
	case "encrypt8":
		cipher.NewCFBEncrypter(b8, initialVector[:8]).XORKeyStream(want, orig)
		encrypt8(b8, dst, src, make([]byte, 8))
	case "decrypt8":
		cipher.NewCFBDecrypter(b8, initialVector[:8]).XORKeyStream(want, orig)
		decrypt8(b8, dst, src, make([]byte, 16))
	case "salsa20BlockCrypt.Encrypt", "salsa20BlockCrypt.Decrypt":
		c, _ := NewSalsa20BlockCrypt(key)
		copy(want, orig)
		if n >= 8 {
			var k [32]byte
			copy(k[:], key)
			salsa20.XORKeyStream(want[8:], orig[8:], orig[:8], &k)
		}
		if fn == "salsa20BlockCrypt.Encrypt" {
			c.Encrypt(dst, src)
		} else {
			c.Decrypt(dst, src)
		}
	case "simpleXORBlockCrypt.Encrypt", "simpleXORBlockCrypt.Decrypt":
		c, _ := NewSimpleXORBlockCrypt(key)
		tbl := c.(*simpleXORBlockCrypt).xortbl
		for i := range want {
			want[i] = orig[i] ^ tbl[i]
		}
		if fn == "simpleXORBlockCrypt.Encrypt" {
			c.Encrypt(dst, src)
		} else {
			c.Decrypt(dst, src)
		}
	case "noneBlockCrypt.Encrypt", "noneBlockCrypt.Decrypt":
		c, _ := NewNoneBlockCrypt(key)
		copy(want, orig)
		if fn == "noneBlockCrypt.Encrypt" {
			c.Encrypt(dst, src)
		} else {
			c.Decrypt(dst, src)
		}
	default:
		t.Skip("no replay driver for " + fn)
	}
	if !bytes.Equal(dst[:n], want) {
		k := 0
		for k < n && dst[k] == want[k] {
			k++
		}
		t.Fatalf("REPLAY-REPRODUCED: %%s length %%d in-place=%%v: output differs from the reference at byte %%d (got %%#x want %%#x)", fn, n, inplace, k, dst[k], want[k])
	}
}
`

var raceNameRe = regexp.MustCompile(`^(UDPSession|Listener)\.([A-Za-z0-9_]+)(\$[0-9]+)?:`)

// raceReplayTest (C14): a client/server pair with echo traffic, every locked setter running in a
// loop, and the function named by the failed obligation called concurrently (through reflection
// if it is an exported method; unexported ones are the library's own goroutines and run
// anyway), under the Go race detector. Reproduced = the detector reports a race whose stacks
// contain that function.
func raceReplayTest(name string) (src string, marker string, ok bool) {
	m := raceNameRe.FindStringSubmatch(name)
	if m == nil {
		return "", "", false
	}
	return fmt.Sprintf(raceReplayTmpl, m[1], m[2]), "(*" + m[1] + ")." + m[2], true
}

const raceReplayTmpl = `package kcp

import (
	"reflect"
	"sync"
	"testing"
	"time"
)

func verifReplayArgs(m reflect.Value, i int) []reflect.Value {
	var out []reflect.Value
	for k := 0; k < m.Type().NumIn(); k++ {
		t := m.Type().In(k)
		switch {
		case t.Kind() == reflect.Int:
			out = append(out, reflect.ValueOf(1000+i%%200))
		case t.Kind() == reflect.Bool:
			out = append(out, reflect.ValueOf(i%%2 == 0))
		case t == reflect.TypeOf(time.Time{}):
			out = append(out, reflect.ValueOf(time.Now().Add(time.Second)))
		case t == reflect.TypeOf([]byte(nil)):
			out = append(out, reflect.ValueOf([]byte("verif")))
		default:
			out = append(out, reflect.Zero(t))
		}
	}
	return out
}

func TestVerifReplay(t *testing.T) {
	recvType, method := %q, %q
	l, err := ListenWithOptions("127.0.0.1:0", nil, 2, 1)
	if err != nil {
		t.Fatal(err)
	}
	stop := make(chan struct{})
	var wg sync.WaitGroup
	var srv *UDPSession
	ready := make(chan struct{})
	go func() {
		s, err := l.AcceptKCP()
		if err != nil {
			return
		}
		srv = s
		close(ready)
		buf := make([]byte, 4096)
		for {
			n, err := s.Read(buf)
			if err != nil {
				return
			}
			s.Write(buf[:n])
		}
	}()
	c, err := DialWithOptions(l.Addr().String(), nil, 2, 1)
	if err != nil {
		t.Fatal(err)
	}
	c.Write([]byte("hello"))
	select {
	case <-ready:
	case <-time.After(5 * time.Second):
		t.Fatal("no accept")
	}
	loop := func(f func(i int)) {
		wg.Add(1)
		go func() {
			defer wg.Done()
			for i := 0; ; i++ {
				select {
				case <-stop:
					return
				default:
				}
				f(i)
			}
		}()
	}
	for _, s := range []*UDPSession{c, srv} {
		s := s
		loop(func(i int) { s.SetDeadline(time.Now().Add(50 * time.Millisecond)); s.Write(make([]byte, 64)); s.Read(make([]byte, 64)) })
		loop(func(i int) {
			s.SetMtu(1000 + i%%200)
			s.SetWindowSize(64+i%%64, 64+i%%64)
			s.SetNoDelay(i%%2, 10+i%%10, 2, 1)
			s.SetACKNoDelay(i%%2 == 0)
			s.SetWriteDelay(i%%2 == 0)
			s.SetStreamMode(true)
			s.SetLogger(0, nil)
			s.GetOOBMaxSize()
			s.SendOOB([]byte("oob"))
			s.GetConv()
			s.GetRTO()
			s.GetSRTT()
			s.GetSRTTVar()
		})
	}
	var recv reflect.Value
	if recvType == "Listener" {
		recv = reflect.ValueOf(l)
	} else {
		recv = reflect.ValueOf(c)
	}
	if m := recv.MethodByName(method); m.IsValid() && method != "Close" {
		for g := 0; g < 2; g++ {
			loop(func(i int) { m.Call(verifReplayArgs(m, i)) })
		}
	}
	time.Sleep(1500 * time.Millisecond)
	close(stop)
	wg.Wait()
	c.Close()
	srv.Close()
	l.Close()
}
`

// wrapReplayTest (C12): the protocol core is run across the 2^32 and 2^31 boundaries of the
// sequence-number space and of the millisecond clock (two in-memory endpoints, every 7th
// datagram dropped so that retransmission, fast ack and the reorder heap are exercised) and
// must deliver exactly what an unshifted run delivers.
const wrapReplayTest = `package kcp

import (
	"bytes"
	"fmt"
	"testing"
	"time"
)

func verifWrapRun(seqStart uint32, clockStart uint32) (string, error) {
	saved := refTime
	defer func() { refTime = saved }()
	refTime = time.Now().Add(-time.Duration(clockStart) * time.Millisecond)
	var a, b *KCP
	na, nb := 0, 0
	a = NewKCP(7, func(buf []byte, size int) {
		na++
		if na%%7 == 3 {
			return
		}
		b.Input(append([]byte(nil), buf[:size]...), IKCP_PACKET_REGULAR, false)
	})
	b = NewKCP(7, func(buf []byte, size int) {
		nb++
		if nb%%7 == 5 {
			return
		}
		a.Input(append([]byte(nil), buf[:size]...), IKCP_PACKET_REGULAR, false)
	})
	for _, k := range []*KCP{a, b} {
		k.NoDelay(1, 10, 2, 1)
		k.WndSize(64, 64)
		k.snd_una, k.snd_nxt, k.rcv_nxt = seqStart, seqStart, seqStart
	}
	var sent, got bytes.Buffer
	const msgs = 300
	deadline := time.Now().Add(6 * time.Second)
	next := 0
	buf := make([]byte, 4096)
	for got.Len() < msgs*40 {
		if time.Now().After(deadline) {
			return got.String(), fmt.Errorf("transfer stalled after %%d of %%d bytes", got.Len(), msgs*40)
		}
		for next < msgs && a.WaitSnd() < 32 {
			m := []byte(fmt.Sprintf("%%039d.", next))
			sent.Write(m)
			a.Send(m)
			next++
		}
		a.Update()
		b.Update()
		for {
			n := b.PeekSize()
			if n <= 0 {
				break
			}
			n = b.Recv(buf)
			if n <= 0 {
				break
			}
			got.Write(buf[:n])
		}
		time.Sleep(2 * time.Millisecond)
	}
	if !bytes.Equal(sent.Bytes()[:got.Len()], got.Bytes()) {
		return got.String(), fmt.Errorf("delivered bytes are not a prefix of the sent bytes")
	}
	return got.String(), nil
}

func TestVerifReplay(t *testing.T) {
	ref, err := verifWrapRun(0, 1000)
	if err != nil {
		t.Fatalf("unshifted run failed (not a wrap-around effect): %%v", err)
	}
	cases := []struct {
		name       string
		seq, clock uint32
	}{
		{"sequence numbers cross 2^32", 0xffffffff - 40, 1000},
		{"sequence numbers cross 2^31", 0x7fffffff - 40, 1000},
		{"clock crosses 2^32", 0, 0xffffffff - 400},
		{"clock crosses 2^31", 0, 0x7fffffff - 400},
		{"both cross 2^32", 0xffffffff - 40, 0xffffffff - 400},
	}
	for _, c := range cases {
		got, err := verifWrapRun(c.seq, c.clock)
		if err != nil {
			t.Fatalf("REPLAY-REPRODUCED: %%s: %%v", c.name, err)
		}
		if got != ref {
			t.Fatalf("REPLAY-REPRODUCED: %%s: delivered data differs from the unshifted run", c.name)
		}
	}
}
`

// C15 replay: bufferpool.go is replaced (overlay, this run only) by a sanitising pool with the
// same interface - every buffer handed out is tracked; Put of a buffer that is not currently
// handed out panics ("recycled twice"); recycled buffers are poisoned and quarantined, never
// reused, and checked at the end to be still all poison ("written after recycling") - and a
// lossy FEC echo workload with out-of-band messages and closes under traffic is run over it.
const poolSanitizerSrc = `package kcp

import (
	"errors"
	"fmt"
	"sync"
	"unsafe"
)

var errBufferSizeMismatch = errors.New("buffer size mismatch")

var defaultBufferPool = newBufferPool(mtuLimit)

type bufferPool struct {
	mu         sync.Mutex
	size       int
	live       map[unsafe.Pointer]bool
	quarantine [][]byte
	violations []string
}

func newBufferPool(size int) *bufferPool {
	return &bufferPool{size: size, live: map[unsafe.Pointer]bool{}}
}

func (bp *bufferPool) Get() []byte {
	b := make([]byte, bp.size)
	bp.mu.Lock()
	bp.live[unsafe.Pointer(&b[0])] = true
	bp.mu.Unlock()
	return b
}

func (bp *bufferPool) Put(buf []byte) error {
	if cap(buf) != mtuLimit {
		return errBufferSizeMismatch
	}
	buf = buf[:cap(buf)]
	p := unsafe.Pointer(&buf[0])
	bp.mu.Lock()
	defer bp.mu.Unlock()
	if !bp.live[p] {
		bp.violations = append(bp.violations, fmt.Sprintf("buffer %p recycled while not handed out (recycled twice, or never acquired)", p))
		return nil
	}
	delete(bp.live, p)
	for i := range buf {
		buf[i] = 0xDB
	}
	bp.quarantine = append(bp.quarantine, buf)
	return nil
}

func (bp *bufferPool) verifReport() []string {
	bp.mu.Lock()
	defer bp.mu.Unlock()
	out := append([]string(nil), bp.violations...)
	for _, q := range bp.quarantine {
		for i, c := range q {
			if c != 0xDB {
				out = append(out, fmt.Sprintf("buffer %p written after it was recycled (byte %d)", unsafe.Pointer(&q[0]), i))
				break
			}
		}
	}
	return out
}
`

const poolReplayTest = `package kcp

import (
	"bytes"
	"net"
	"sync/atomic"
	"testing"
	"time"
)

type verifLossyConn struct {
	net.PacketConn
	n uint32
}

func (c *verifLossyConn) WriteTo(p []byte, addr net.Addr) (int, error) {
	if atomic.AddUint32(&c.n, 1)%5 == 0 {
		return len(p), nil // every fifth datagram is lost: FEC recovery and retransmission run
	}
	return c.PacketConn.WriteTo(p, addr)
}

func TestVerifReplay(t *testing.T) {
	corrupt := false
	for round := 0; round < 3; round++ {
		lc, err := net.ListenPacket("udp", "127.0.0.1:0")
		if err != nil {
			t.Fatal(err)
		}
		l, err := ServeConn(nil, 3, 1, &verifLossyConn{PacketConn: lc})
		if err != nil {
			t.Fatal(err)
		}
		go func() {
			for {
				s, err := l.AcceptKCP()
				if err != nil {
					return
				}
				s.SetNoDelay(1, 10, 2, 1)
				s.SetOOBHandler(func([]byte) {})
				go func() {
					buf := make([]byte, 4096)
					for {
						n, err := s.Read(buf)
						if err != nil {
							return
						}
						s.Write(buf[:n])
					}
				}()
			}
		}()
		cc, err := net.ListenPacket("udp", "127.0.0.1:0")
		if err != nil {
			t.Fatal(err)
		}
		c, err := NewConn4(uint32(100+round), lc.LocalAddr(), nil, 3, 1, true, &verifLossyConn{PacketConn: cc})
		if err != nil {
			t.Fatal(err)
		}
		c.SetNoDelay(1, 10, 2, 1)
		c.SetOOBHandler(func([]byte) {})
		msg := make([]byte, 700)
		echo := make([]byte, 700)
		roundEnd := time.Now().Add(5 * time.Second)
		for i := 0; i < 60 && time.Now().Before(roundEnd); i++ {
			for k := range msg {
				msg[k] = byte(i + k)
			}
			c.SetDeadline(time.Now().Add(time.Second))
			if _, err := c.Write(msg); err != nil {
				break
			}
			c.SendOOB([]byte("oob"))
			got := 0
			for got < len(msg) {
				n, err := c.Read(echo[got:])
				if err != nil {
					break
				}
				got += n
			}
			if got == len(msg) && !bytes.Equal(echo, msg) {
				corrupt = true
			}
		}
		// close under traffic, then out-of-band sends on the closed session
		go c.Write(msg)
		c.Close()
		c.SendOOB([]byte("late"))
		l.Close()
		time.Sleep(100 * time.Millisecond)
	}
	for _, v := range defaultBufferPool.verifReport() {
		t.Errorf("REPLAY-REPRODUCED: %%s", v)
	}
	if corrupt {
		t.Errorf("REPLAY-REPRODUCED: echoed data differs from the data written (a buffer was read after recycling)")
	}
}
`
