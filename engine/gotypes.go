package main

// Mapping of Go types to SMT sorts, zero values, typing facts, struct classification.

import (
	"fmt"
	"go/types"
	"regexp"
	"strings"

	"golang.org/x/tools/go/ssa"
)

var (
	sortSlice *Sort
	sortIface *Sort
	sortStr   *Sort
)

func init() {
	sortSlice = dataSort("Slice", func(dt *Datatype) {
		dt.Ctor = "mkslice"
		dt.Fields = []DTField{{"s_ref", sortInt}, {"s_off", sortInt}, {"s_len", sortInt}, {"s_cap", sortInt}}
	})
	sortIface = dataSort("Iface", func(dt *Datatype) {
		dt.Ctor = "mkiface"
		dt.Fields = []DTField{{"i_tag", sortInt}, {"i_val", sortInt}}
	})
	sortStr = unintSort("Str")
}

func sliceRef(s *Term) *Term { return mkSel(s, 0) }
func sliceOff(s *Term) *Term { return mkSel(s, 1) }
func sliceLen(s *Term) *Term { return mkSel(s, 2) }
func sliceCap(s *Term) *Term { return mkSel(s, 3) }
func mkSlice(ref, off, ln, cp *Term) *Term {
	return mkCtor(sortSlice, ref, off, ln, cp)
}

var nilSlice = func() *Term { return mkSlice(mkInt(0), mkInt(0), mkInt(0), mkInt(0)) }

func objlen(ref *Term) *Term { return mkApp("objlen", sortInt, ref) }

type TypeEnv struct {
	pkg        *types.Package
	qual       types.Qualifier
	objectLike map[string]bool // key: typeKey of named struct (generic origin name)
	typeIDs    map[string]int
	sortCache  map[types.Type]*Sort
}

func newTypeEnv(pkg *types.Package) *TypeEnv {
	te := &TypeEnv{pkg: pkg, objectLike: map[string]bool{}, typeIDs: map[string]int{}, sortCache: map[types.Type]*Sort{}}
	te.qual = func(p *types.Package) string {
		if p == pkg {
			return ""
		}
		return p.Path()
	}
	return te
}

var reUint8 = regexp.MustCompile(`\buint8\b`)

func (te *TypeEnv) typeStr(t types.Type) string {
	return reUint8.ReplaceAllString(types.TypeString(t, te.qual), "byte")
}

// namedKey: name of a named type without type arguments ("RingBuffer"), qualified for foreign packages.
func (te *TypeEnv) namedKey(t types.Type) string {
	t = types.Unalias(t)
	if n, ok := t.(*types.Named); ok {
		o := n.Origin().Obj()
		if o.Pkg() == nil || o.Pkg() == te.pkg {
			return o.Name()
		}
		return o.Pkg().Name() + "." + o.Name()
	}
	return ""
}

func derefType(t types.Type) types.Type {
	if p, ok := types.Unalias(t).Underlying().(*types.Pointer); ok {
		return p.Elem()
	}
	return nil
}

func isTypeParam(t types.Type) bool {
	_, ok := types.Unalias(t).(*types.TypeParam)
	return ok
}

func structOf(t types.Type) *types.Struct {
	if isTypeParam(t) {
		return nil
	}
	s, _ := t.Underlying().(*types.Struct)
	return s
}

// intInfo returns width and signedness of integer types.
func intInfo(t types.Type) (w int, signed bool, ok bool) {
	if isTypeParam(t) {
		return 0, false, false
	}
	b, isb := t.Underlying().(*types.Basic)
	if !isb {
		return 0, false, false
	}
	switch b.Kind() {
	case types.Int8:
		return 8, true, true
	case types.Int16:
		return 16, true, true
	case types.Int32:
		return 32, true, true
	case types.Int64, types.Int:
		return 64, true, true
	case types.Uint8:
		return 8, false, true
	case types.Uint16:
		return 16, false, true
	case types.Uint32:
		return 32, false, true
	case types.Uint64, types.Uint, types.Uintptr:
		return 64, false, true
	case types.UntypedInt, types.UntypedRune:
		return 0, true, true
	}
	return 0, false, false
}

func (te *TypeEnv) typeID(t types.Type) int {
	k := te.typeStr(t)
	if id, ok := te.typeIDs[k]; ok {
		return id
	}
	id := len(te.typeIDs) + 1
	te.typeIDs[k] = id
	return id
}

func (te *TypeEnv) sortOf(t types.Type) *Sort {
	t = types.Unalias(t)
	if s, ok := te.sortCache[t]; ok {
		return s
	}
	s := te.sortOf1(t)
	te.sortCache[t] = s
	return s
}

func (te *TypeEnv) sortOf1(t types.Type) *Sort {
	if tp, ok := t.(*types.TypeParam); ok {
		return unintSort("TP_" + tp.Obj().Name())
	}
	switch u := t.Underlying().(type) {
	case *types.Basic:
		if u.Info()&types.IsInteger != 0 {
			return sortInt
		}
		if u.Info()&types.IsBoolean != 0 {
			return sortBool
		}
		if u.Info()&types.IsString != 0 {
			return sortStr
		}
		if u.Kind() == types.UnsafePointer {
			return sortInt
		}
		if u.Kind() == types.UntypedNil {
			return sortInt
		}
		return unintSort("Float")
	case *types.Pointer, *types.Map, *types.Chan, *types.Signature:
		return sortInt
	case *types.Slice:
		return sortSlice
	case *types.Interface:
		return sortIface
	case *types.Array:
		return arraySort(sortInt, te.sortOf(u.Elem()))
	case *types.Struct:
		name := te.typeStr(t)
		_ = fmt.Sprint
		return dataSort("R_"+name, func(dt *Datatype) {
			if u.NumFields() == 0 {
				return
			}
			for i := 0; i < u.NumFields(); i++ {
				f := u.Field(i)
				dt.Fields = append(dt.Fields, DTField{Sel: smtIdent(strings.Trim(dt.Name, "|") + "." + f.Name()), Sort: te.sortOf(f.Type())})
			}
		})
	case *types.Tuple:
		panic("sortOf tuple")
	}
	panic("sortOf: unhandled type " + t.String())
}

func (te *TypeEnv) zero(t types.Type) *Term {
	t = types.Unalias(t)
	s := te.sortOf(t)
	if isTypeParam(t) {
		return mkVar("zero!"+s.Name, s)
	}
	switch u := t.Underlying().(type) {
	case *types.Basic:
		switch s {
		case sortInt:
			return mkInt(0)
		case sortBool:
			return tFalse
		}
		return mkVar("zero!"+s.Name, s)
	case *types.Pointer, *types.Map, *types.Chan, *types.Signature:
		return mkInt(0)
	case *types.Slice:
		return nilSlice()
	case *types.Interface:
		return mkCtor(sortIface, mkInt(0), mkInt(0))
	case *types.Array:
		return mkConstArr(s, te.zero(u.Elem()))
	case *types.Struct:
		args := make([]*Term, u.NumFields())
		for i := range args {
			args[i] = te.zero(u.Field(i).Type())
		}
		return mkCtor(s, args...)
	}
	panic("zero: " + t.String())
}

// typeFacts: facts that hold of every well-typed value v of type t. alloc is the
// current allocation watermark (refs are <= alloc) or nil.
func (te *TypeEnv) typeFacts(t types.Type, v *Term, alloc *Term, depth int) *Term {
	t = types.Unalias(t)
	if isTypeParam(t) {
		return tTrue
	}
	refOK := func(r *Term) *Term {
		f := mkLe(mkInt(0), r)
		if alloc != nil {
			f = mkAnd(f, mkLe(r, alloc))
		}
		return f
	}
	switch u := t.Underlying().(type) {
	case *types.Basic:
		if w, sg, ok := intInfo(t); ok && w > 0 {
			if w == 64 {
				if sg {
					return tTrue
				}
				return mkLe(mkInt(0), v)
			}
			return inRange(v, w, sg)
		}
		if u.Info()&types.IsString != 0 {
			return mkLe(mkInt(0), strLen(v))
		}
		return tTrue
	case *types.Pointer, *types.Map, *types.Chan:
		return refOK(v)
	case *types.Slice:
		return mkAnd(refOK(sliceRef(v)), wfSliceT(v))
	case *types.Interface:
		if u.NumMethods() > 0 {
			// a non-nil value of a non-empty interface type has a dynamic type implementing it
			tag := mkSel(v, 0)
			return mkOr(mkEq(tag, mkInt(0)), mkApp("implements:"+te.typeStr(t), sortBool, tag))
		}
		return tTrue
	case *types.Struct:
		if depth > 3 {
			return tTrue
		}
		var cs []*Term
		for i := 0; i < u.NumFields(); i++ {
			cs = append(cs, te.typeFacts(u.Field(i).Type(), mkSel(v, i), alloc, depth+1))
		}
		return mkAnd(cs...)
	}
	return tTrue
}

func strLen(s *Term) *Term { return mkApp("str.len", sortInt, s) }

func wfSliceT(s *Term) *Term {
	return mkAnd(
		mkLe(mkInt(0), sliceOff(s)),
		mkLe(mkInt(0), sliceLen(s)),
		mkLe(sliceLen(s), sliceCap(s)),
		mkLe(mkAdd(sliceOff(s), sliceCap(s)), objlen(sliceRef(s))),
		mkImp(mkEq(sliceRef(s), mkInt(0)), mkAnd(mkEq(sliceCap(s), mkInt(0)), mkEq(sliceOff(s), mkInt(0)))),
	)
}

// ---- heap naming ----

func (te *TypeEnv) fieldHeap(st types.Type, field int) (string, *Sort) {
	s := structOf(st)
	f := s.Field(field)
	return "F:" + te.typeStr(st) + "." + f.Name(), arraySort(sortInt, te.sortOf(f.Type()))
}

func (te *TypeEnv) elemHeap(et types.Type) (string, *Sort) {
	return "H:" + te.typeStr(et), arraySort(sortInt, arraySort(sortInt, te.sortOf(et)))
}

// mapHeaps names the heaps of a map. Maps are split into regions by the struct field that
// owns them (region = "Struct.field"); the engine checks that every map operation reads its
// map directly from such a field and that maps are only ever created into one (see regionOf),
// so maps owned by different fields never alias.
func (te *TypeEnv) mapHeaps(mt *types.Map, region string) (dom string, doms *Sort, val string, vals *Sort) {
	k := te.sortOf(mt.Key())
	v := te.sortOf(mt.Elem())
	n := region
	if n == "" {
		n = te.typeStr(mt)
	}
	return "MD:" + n, arraySort(sortInt, arraySort(k, sortBool)), "MV:" + n, arraySort(sortInt, arraySort(k, v))
}

func (te *TypeEnv) mapLenHeap(mt *types.Map, region string) (string, *Sort) {
	n := region
	if n == "" {
		n = te.typeStr(mt)
	}
	return "ML:" + n, arraySort(sortInt, sortInt)
}

// classify computes which named struct types are object-like (only reached via
// pointers that may be stored in the heap).
func (te *TypeEnv) classify(prog *ssa.Program, spkg *ssa.Package) {
	mark := func(t types.Type) {
		t = types.Unalias(t)
		if p, ok := t.(*types.Pointer); ok {
			e := types.Unalias(p.Elem())
			if structOf(e) != nil {
				if k := te.namedKey(e); k != "" {
					te.objectLike[k] = true
				}
			}
		}
	}
	var visit func(t types.Type, seen map[types.Type]bool)
	visit = func(t types.Type, seen map[types.Type]bool) {
		t = types.Unalias(t)
		if seen[t] {
			return
		}
		seen[t] = true
		mark(t)
		switch u := t.(type) {
		case *types.Named:
			visit(u.Underlying(), seen)
		case *types.Pointer:
			// do not descend: pointer params/receivers alone do not make object-like,
			// but a pointer appearing inside a composite does (handled by caller)
		case *types.Slice:
			visit(u.Elem(), seen)
		case *types.Array:
			visit(u.Elem(), seen)
		case *types.Map:
			visit(u.Key(), seen)
			visit(u.Elem(), seen)
		case *types.Chan:
			visit(u.Elem(), seen)
		case *types.Struct:
			for i := 0; i < u.NumFields(); i++ {
				visit(u.Field(i).Type(), seen)
			}
		}
	}
	seen := map[types.Type]bool{}
	scope := spkg.Pkg.Scope()
	for _, n := range scope.Names() {
		switch o := scope.Lookup(n).(type) {
		case *types.TypeName:
			if _, ok := types.Unalias(o.Type()).(*types.Named); ok {
				u := o.Type().Underlying()
				switch u.(type) {
				case *types.Struct, *types.Slice, *types.Map, *types.Array:
					visit(u, seen)
				}
			}
		case *types.Var:
			mark(o.Type())
			visit(o.Type(), seen)
		case *types.Func:
			sig := o.Type().(*types.Signature)
			for i := 0; i < sig.Results().Len(); i++ {
				mark(sig.Results().At(i).Type())
			}
		}
	}
	// methods' results, MakeInterface / TypeAssert operands
	for fn := range ssaAllFunctions(prog, spkg) {
		if fn.Signature != nil {
			for i := 0; i < fn.Signature.Results().Len(); i++ {
				mark(fn.Signature.Results().At(i).Type())
			}
		}
		for _, b := range fn.Blocks {
			for _, in := range b.Instrs {
				switch x := in.(type) {
				case *ssa.MakeInterface:
					mark(x.X.Type())
				case *ssa.TypeAssert:
					mark(x.AssertedType)
				}
			}
		}
	}
}

func (te *TypeEnv) isObjectLike(t types.Type) bool {
	t = types.Unalias(t)
	if structOf(t) == nil {
		return false
	}
	k := te.namedKey(t)
	if k == "" {
		return false
	}
	if n, ok := t.(*types.Named); ok && n.Obj().Pkg() != te.pkg {
		return true // foreign structs are only ever handled through pointers
	}
	return te.objectLike[k]
}

func ssaAllFunctions(prog *ssa.Program, spkg *ssa.Package) map[*ssa.Function]bool {
	out := map[*ssa.Function]bool{}
	var add func(f *ssa.Function)
	add = func(f *ssa.Function) {
		if f == nil || out[f] {
			return
		}
		out[f] = true
		for _, a := range f.AnonFuncs {
			add(a)
		}
	}
	for _, m := range spkg.Members {
		switch m := m.(type) {
		case *ssa.Function:
			add(m)
		case *ssa.Type:
			if n, ok := types.Unalias(m.Type()).(*types.Named); ok {
				for i := 0; i < n.NumMethods(); i++ {
					add(prog.FuncValue(n.Method(i)))
				}
			}
		}
	}
	return out
}
