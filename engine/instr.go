package main

// Semantics of individual SSA instructions.

import (
	"fmt"
	"go/token"
	"go/types"
	"math/big"

	"golang.org/x/tools/go/ssa"
)

func (x *Exec) src(in ssa.Instruction) string {
	return x.env.srcAt(in.Pos())
}

func (x *Exec) execInstr(fr *Frame, st *State, in ssa.Instruction) {
	te := x.env.te
	switch i := in.(type) {
	case *ssa.DebugRef:
		return
	case *ssa.Alloc:
		et := derefType(i.Type())
		if structOf(et) != nil && te.isObjectLike(et) && i.Heap {
			fr.regs[i] = x.allocObject(st, et)
			return
		}
		c := x.newCell(i.Comment, et, i.Pos())
		fr.cells[i] = c
		st.cells[c] = te.zero(et)
	case *ssa.Store:
		p := x.asPtr(x.val(fr, i.Addr), i.Addr.Type())
		x.store(st, p, x.val(fr, i.Val), i.Pos(), x.src(i))
	case *ssa.UnOp:
		x.execUnOp(fr, st, i)
	case *ssa.BinOp:
		fr.regs[i] = x.binop(st, i.Op, x.val(fr, i.X), x.val(fr, i.Y), i.X.Type(), i.Y.Type(), i.Type(), i.Pos())
	case *ssa.FieldAddr:
		p := x.asPtr(x.val(fr, i.X), i.X.Type())
		fr.regs[i] = x.fieldAddr(st, p, i.Field, i.Pos(), x.src(i))
	case *ssa.Field:
		v := x.toTerm(x.val(fr, i.X), i.X.Type())
		fr.regs[i] = x.fromTerm(mkSel(v, i.Field), i.Type())
	case *ssa.IndexAddr:
		idx := x.term(fr, i.Index)
		switch xt := i.X.Type().Underlying().(type) {
		case *types.Slice:
			s := x.term(fr, i.X)
			x.assert(st, "index", x.src(i), mkAnd(mkLe(mkInt(0), idx), mkLt(idx, sliceLen(s))), i.Pos(), nil)
			fr.regs[i] = x.elemPtr(s, xt.Elem(), idx)
		case *types.Pointer:
			at := xt.Elem().Underlying().(*types.Array)
			p := x.asPtr(x.val(fr, i.X), i.X.Type())
			x.nilCheck(st, p, i.Pos(), x.src(i))
			x.assert(st, "index", x.src(i), mkAnd(mkLe(mkInt(0), idx), mkLt(idx, mkInt(at.Len()))), i.Pos(), nil)
			out := *p
			out.Nilc = tFalse
			out.Path = append(append([]PathStep{}, p.Path...), PathStep{IsIdx: true, Idx: idx})
			out.Typ = at.Elem()
			fr.regs[i] = &out
		default:
			x.unsup("IndexAddr on %v", i.X.Type())
		}
	case *ssa.Index:
		idx := x.term(fr, i.Index)
		switch xt := i.X.Type().Underlying().(type) {
		case *types.Array:
			a := x.term(fr, i.X)
			x.assert(st, "index", x.src(i), mkAnd(mkLe(mkInt(0), idx), mkLt(idx, mkInt(xt.Len()))), i.Pos(), nil)
			fr.regs[i] = x.fromTerm(mkSelect(a, idx), i.Type())
		case *types.Basic: // string
			s := x.term(fr, i.X)
			x.assert(st, "index", x.src(i), mkAnd(mkLe(mkInt(0), idx), mkLt(idx, strLen(s))), i.Pos(), nil)
			v := mkApp("str.at", sortInt, s, idx)
			x.assume(st, inRange(v, 8, false))
			fr.regs[i] = v
		default:
			x.unsup("Index on %v", i.X.Type())
		}
	case *ssa.Lookup:
		switch xt := i.X.Type().Underlying().(type) {
		case *types.Map:
			m := x.term(fr, i.X)
			k := x.toTerm(x.val(fr, i.Index), xt.Key())
			x.guardMap(st, x.regionOf(i.X), m, false, i.Pos())
			dn, ds, vn, vs := te.mapHeaps(xt, x.regionOf(i.X))
			dom := mkSelect(mkSelect(st.H(dn, ds), m), k)
			raw := mkSelect(mkSelect(st.H(vn, vs), m), k)
			v := mkIte(dom, raw, te.zero(xt.Elem()))
			x.assumeTyped(st, xt.Elem(), raw)
			// nil map read is fine in Go (reads as empty): model dom false for nil
			x.assume(st, mkImp(mkEq(m, mkInt(0)), mkNot(dom)))
			if i.CommaOk {
				fr.regs[i] = &TupleVal{Elems: []Val{x.fromTerm(v, xt.Elem()), dom}}
			} else {
				fr.regs[i] = x.fromTerm(v, xt.Elem())
			}
		default:
			x.unsup("Lookup on %v", i.X.Type())
		}
	case *ssa.Slice:
		x.execSlice(fr, st, i)
	case *ssa.MakeSlice:
		ln := x.term(fr, i.Len)
		cp := x.term(fr, i.Cap)
		x.assert(st, "makeslice", x.src(i), mkAnd(mkLe(mkInt(0), ln), mkLe(ln, cp)), i.Pos(), nil)
		et := i.Type().Underlying().(*types.Slice).Elem()
		r := x.allocArray(st, et, cp)
		fr.regs[i] = mkSlice(r, mkInt(0), ln, cp)
	case *ssa.MakeMap:
		mt := i.Type().Underlying().(*types.Map)
		r := x.newRef(st)
		reg := x.regionOf(i)
		dn, ds, _, _ := te.mapHeaps(mt, reg)
		st.setH(dn, mkStore(st.H(dn, ds), r, mkConstArr(ds.Elem, tFalse)))
		ln, ls := te.mapLenHeap(mt, reg)
		st.setH(ln, mkStore(st.H(ln, ls), r, mkInt(0)))
		fr.regs[i] = r
	case *ssa.MakeChan:
		r := x.newRef(st)
		sz := x.term(fr, i.Size)
		x.assume(st, mkEq(mkApp("chan.cap", sortInt, r), sz))
		fr.regs[i] = r
	case *ssa.MakeClosure:
		cv := &ClosureVal{Fn: i.Fn.(*ssa.Function)}
		for _, b := range i.Bindings {
			cv.Bindings = append(cv.Bindings, x.val(fr, b))
		}
		fr.regs[i] = cv
	case *ssa.MakeInterface:
		fr.regs[i] = x.makeIface(st, x.val(fr, i.X), i.X.Type())
	case *ssa.ChangeInterface:
		fr.regs[i] = x.val(fr, i.X)
	case *ssa.ChangeType:
		fr.regs[i] = x.val(fr, i.X)
	case *ssa.Convert:
		fr.regs[i] = x.convert(st, x.val(fr, i.X), i.X.Type(), i.Type())
	case *ssa.TypeAssert:
		x.execTypeAssert(fr, st, i)
	case *ssa.Extract:
		tv, ok := x.val(fr, i.Tuple).(*TupleVal)
		if !ok {
			x.unsup("extract from non-tuple")
		}
		fr.regs[i] = tv.Elems[i.Index]
	case *ssa.MapUpdate:
		mt := i.Map.Type().Underlying().(*types.Map)
		m := x.term(fr, i.Map)
		k := x.toTerm(x.val(fr, i.Key), mt.Key())
		v := x.toTerm(x.val(fr, i.Value), mt.Elem())
		x.assert(st, "nil", "map update "+x.src(i), mkNot(mkEq(m, mkInt(0))), i.Pos(), nil)
		x.mapStore(st, mt, x.regionOf(i.Map), m, k, v, true, i.Pos())
	case *ssa.Call:
		fr.regs[i] = x.execCall(fr, st, i.Common(), i, i.Type())
	case *ssa.Defer:
		if x.inLoop(fr, i.Block()) {
			if sc := i.Call.StaticCallee(); sc != nil && noopLib[fullName(sc)] {
				x.note("deferred call without effect on modelled state ignored: " + fullName(sc))
				return
			}
			x.unsup("defer inside a loop")
		}
		// evaluate operands now
		fr.defers = append(fr.defers, deferRec{guard: st.pc, call: i.Common(), instr: i})
		// arguments are evaluated at defer time: registers are immutable, so nothing to snapshot
	case *ssa.RunDefers:
		ds := fr.defers
		for k := len(ds) - 1; k >= 0; k-- {
			d := ds[k]
			if mkAnd(st.pc, d.guard) == tFalse {
				continue
			}
			run := st.clone()
			run.pc = mkAnd(st.pc, d.guard)
			x.execCall(fr, run, d.call, d.instr, nil)
			skip := st.clone()
			skip.pc = mkAnd(st.pc, mkNot(d.guard))
			m := x.mergeStates([]*State{run, skip})
			*st = *m
		}
	case *ssa.Go:
		x.note("go statement: spawned function verified separately (" + x.src(i) + ")")
		// evaluate operands for safety only
	case *ssa.Send:
		x.note("channel send abstracted")
		x.chanSend(fr, st, i)
	case *ssa.Select:
		x.execSelect(fr, st, i)
	case *ssa.Range:
		switch xt := i.X.Type().Underlying().(type) {
		case *types.Map:
			x.guardMap(st, x.regionOf(i.X), x.term(fr, i.X), false, i.Pos())
			fr.regs[i] = &IterVal{Map: x.term(fr, i.X), MTyp: xt, Region: x.regionOf(i.X)}
		default:
			x.unsup("range over %v", i.X.Type())
		}
	case *ssa.Next:
		it, ok := x.val(fr, i.Iter).(*IterVal)
		if !ok {
			x.unsup("next on non-iterator")
		}
		okb := fresh("next.ok", sortBool)
		k := fresh("next.k", te.sortOf(it.MTyp.Key()))
		x.assumeTyped(st, it.MTyp.Key(), k)
		dn, ds, vn, vs := te.mapHeaps(it.MTyp, it.Region)
		x.assume(st, mkImp(okb, mkSelect(mkSelect(st.H(dn, ds), it.Map), k)))
		v := mkSelect(mkSelect(st.H(vn, vs), it.Map), k)
		x.assumeTyped(st, it.MTyp.Elem(), v)
		fr.regs[i] = &TupleVal{Elems: []Val{okb, x.fromTerm(k, it.MTyp.Key()), x.fromTerm(v, it.MTyp.Elem())}}
	default:
		x.unsup("instruction %T (%s)", in, in)
	}
}

func (x *Exec) inLoop(fr *Frame, b *ssa.BasicBlock) bool {
	for _, li := range fr.cfg.loops {
		if li.body[b] {
			return true
		}
	}
	return false
}

// regionOf: the owning struct field ("Struct.field") of a map value. Map values must be read
// directly from a field (or be a make() whose result is stored into one).
func (x *Exec) regionOf(v ssa.Value) string {
	switch u := v.(type) {
	case *ssa.UnOp:
		if fa, ok := u.X.(*ssa.FieldAddr); ok && u.Op == token.MUL {
			pt := derefType(fa.X.Type())
			if sty := structOf(pt); sty != nil {
				return x.env.te.namedKey(pt) + "." + sty.Field(fa.Field).Name()
			}
		}
	case *ssa.MakeMap:
		reg := ""
		for _, r := range *u.Referrers() {
			switch s := r.(type) {
			case *ssa.Store:
				if fa, ok := s.Addr.(*ssa.FieldAddr); ok && s.Val == u {
					pt := derefType(fa.X.Type())
					if sty := structOf(pt); sty != nil {
						reg = x.env.te.namedKey(pt) + "." + sty.Field(fa.Field).Name()
						continue
					}
				}
				x.unsup("map created by make() is stored somewhere other than a struct field")
			case *ssa.DebugRef:
			default:
				x.unsup("map created by make() escapes other than into a struct field (%T)", r)
			}
		}
		if reg != "" {
			return reg
		}
	}
	x.unsup("map value is not read directly from a struct field (needed for the map region discipline)")
	return ""
}

func (x *Exec) mapStore(st *State, mt *types.Map, region string, m, k, v *Term, present bool, pos token.Pos) {
	te := x.env.te
	x.guardMap(st, region, m, true, pos)
	dn, ds, vn, vs := te.mapHeaps(mt, region)
	x.checkWrite(st, dn, m, pos)
	dh := st.H(dn, ds)
	was := mkSelect(mkSelect(dh, m), k)
	st.setH(dn, mkStore(dh, m, mkStore(mkSelect(dh, m), k, mkBool(present))))
	if present {
		vh := st.H(vn, vs)
		st.setH(vn, mkStore(vh, m, mkStore(mkSelect(vh, m), k, v)))
	}
	ln, ls := te.mapLenHeap(mt, region)
	lh := st.H(ln, ls)
	cur := mkSelect(lh, m)
	var nl *Term
	if present {
		nl = mkIte(was, cur, mkAdd(cur, mkInt(1)))
	} else {
		nl = mkIte(was, mkSub(cur, mkInt(1)), cur)
	}
	st.setH(ln, mkStore(lh, m, nl))
}

func (x *Exec) execUnOp(fr *Frame, st *State, i *ssa.UnOp) {
	switch i.Op {
	case token.MUL:
		p := x.asPtr(x.val(fr, i.X), i.X.Type())
		fr.regs[i] = x.load(st, p, i.Pos(), x.src(i))
	case token.NOT:
		fr.regs[i] = mkNot(x.term(fr, i.X))
	case token.SUB:
		v := x.term(fr, i.X)
		if v.Sort != sortInt {
			fr.regs[i] = mkApp("fneg", v.Sort, v)
			return
		}
		fr.regs[i] = x.wrapTo(mkNeg(v), i.Type())
	case token.XOR:
		v := x.term(fr, i.X)
		w, sg, _ := intInfo(i.Type())
		if sg {
			fr.regs[i] = mkSub(mkNeg(v), mkInt(1))
		} else {
			fr.regs[i] = mkSub(mkBig(new(big.Int).Sub(pow2(w), big.NewInt(1))), v)
		}
	case token.ARROW:
		et := i.X.Type().Underlying().(*types.Chan).Elem()
		x.note("channel receive abstracted (received value unconstrained)")
		v := x.chanRecv(fr, st, x.term(fr, i.X), et, i, i.X, tTrue)
		if i.CommaOk {
			fr.regs[i] = &TupleVal{Elems: []Val{v, fresh("recv.ok", sortBool)}}
		} else {
			fr.regs[i] = v
		}
	default:
		x.unsup("unop %v", i.Op)
	}
}

// wrapTo reduces a mathematical result into the representation range of Go type t.
// 64-bit integers are treated as mathematical integers (assumption: no overflow).
func (x *Exec) wrapTo(v *Term, t types.Type) *Term {
	w, sg, ok := intInfo(t)
	if !ok || w == 0 || w == 64 {
		return v
	}
	return wrapInt(v, w, sg)
}

func (x *Exec) execSlice(fr *Frame, st *State, i *ssa.Slice) {
	var lo, hi, mx *Term
	if i.Low != nil {
		lo = x.term(fr, i.Low)
	}
	if i.High != nil {
		hi = x.term(fr, i.High)
	}
	if i.Max != nil {
		mx = x.term(fr, i.Max)
	}
	switch xt := i.X.Type().Underlying().(type) {
	case *types.Slice:
		s := x.term(fr, i.X)
		fr.regs[i] = x.sliceOp(st, s, lo, hi, mx, i.Pos(), x.src(i))
	case *types.Basic: // string
		s := x.term(fr, i.X)
		if lo == nil {
			lo = mkInt(0)
		}
		if hi == nil {
			hi = strLen(s)
		}
		x.assert(st, "slice", x.src(i), mkAnd(mkLe(mkInt(0), lo), mkLe(lo, hi), mkLe(hi, strLen(s))), i.Pos(), nil)
		r := mkApp("str.sub", sortStr, s, lo, hi)
		x.assume(st, mkEq(strLen(r), mkSub(hi, lo)))
		fr.regs[i] = r
	case *types.Pointer:
		at, ok := xt.Elem().Underlying().(*types.Array)
		if !ok {
			x.unsup("slice of %v", i.X.Type())
		}
		// slicing an array: supported only as a fresh copy-view when the array is never written
		// through the slice; modelled by materialising the array into a heap object.
		p := x.asPtr(x.val(fr, i.X), i.X.Type())
		x.nilCheck(st, p, i.Pos(), x.src(i))
		arr, _ := x.loadTerm(st, p)
		r := x.newRef(st)
		hn, so := x.env.te.elemHeap(at.Elem())
		st.setH(hn, mkStore(st.H(hn, so), r, arr))
		x.assume(st, mkEq(objlen(r), mkInt(at.Len())))
		x.note("array slicing modelled by copy (writes through the slice are not reflected in the array): " + x.src(i))
		s := mkSlice(r, mkInt(0), mkInt(at.Len()), mkInt(at.Len()))
		fr.regs[i] = x.sliceOp(st, s, lo, hi, mx, i.Pos(), x.src(i))
	default:
		x.unsup("slice of %v", i.X.Type())
	}
}

func (x *Exec) sliceOp(st *State, s, lo, hi, mx *Term, pos token.Pos, desc string) *Term {
	if lo == nil {
		lo = mkInt(0)
	}
	if hi == nil {
		hi = sliceLen(s)
	}
	capv := sliceCap(s)
	if mx != nil {
		x.assert(st, "slice", desc, mkAnd(mkLe(mkInt(0), lo), mkLe(lo, hi), mkLe(hi, mx), mkLe(mx, capv)), pos, nil)
		capv = mx
	} else {
		x.assert(st, "slice", desc, mkAnd(mkLe(mkInt(0), lo), mkLe(lo, hi), mkLe(hi, capv)), pos, nil)
	}
	return mkSlice(sliceRef(s), mkAdd(sliceOff(s), lo), mkSub(hi, lo), mkSub(capv, lo))
}

func (x *Exec) makeIface(st *State, v Val, t types.Type) *Term {
	te := x.env.te
	t = types.Unalias(t)
	if _, isIface := t.Underlying().(*types.Interface); isIface && !isTypeParam(t) {
		return x.toTerm(v, t)
	}
	tag := mkInt(int64(te.typeID(t)))
	tm := x.toTerm(v, t)
	if tm.Sort == sortInt {
		return mkCtor(sortIface, tag, tm)
	}
	bname := "box:" + tm.Sort.Name
	uname := "unbox:" + tm.Sort.Name
	b := mkApp(bname, sortInt, tm)
	x.assume(st, mkEq(mkApp(uname, tm.Sort, b), tm))
	return mkCtor(sortIface, tag, b)
}

func (x *Exec) unbox(iv *Term, t types.Type) Val {
	so := x.env.te.sortOf(t)
	pv := mkSel(iv, 1)
	if so == sortInt {
		return x.fromTerm(pv, t)
	}
	return mkApp("unbox:"+so.Name, so, pv)
}

// implementsTag: disjunction over concrete types known to the program that satisfy iface t.
func (x *Exec) typeTest(iv *Term, t types.Type) *Term {
	te := x.env.te
	t = types.Unalias(t)
	if it, ok := t.Underlying().(*types.Interface); ok {
		// dynamic type implements interface: over-approximate with an uninterpreted predicate,
		// except for nil which never matches.
		_ = it
		p := mkApp("implements:"+te.typeStr(t), sortBool, mkSel(iv, 0))
		return mkAnd(mkNot(mkEq(mkSel(iv, 0), mkInt(0))), p)
	}
	return mkEq(mkSel(iv, 0), mkInt(int64(te.typeID(t))))
}

func (x *Exec) execTypeAssert(fr *Frame, st *State, i *ssa.TypeAssert) {
	iv := x.term(fr, i.X)
	ok := x.typeTest(iv, i.AssertedType)
	var v Val
	if _, isIface := i.AssertedType.Underlying().(*types.Interface); isIface {
		v = iv
	} else {
		v = x.unbox(iv, i.AssertedType)
		if tm, isT := v.(*Term); isT {
			x.assume(st, mkImp(ok, x.env.te.typeFacts(i.AssertedType, tm, x.alloc(st), 0)))
		} else if pv, isP := v.(*PtrVal); isP && pv.Base == PObj {
			// a typed non-nil-ness is not implied; keep Nilc
			x.assume(st, mkImp(ok, mkLe(pv.Ref, x.alloc(st))))
		}
	}
	if i.CommaOk {
		fr.regs[i] = &TupleVal{Elems: []Val{v, ok}}
		return
	}
	x.assert(st, "typeassert", x.src(i), ok, i.Pos(), nil)
	fr.regs[i] = v
}

func (x *Exec) convert(st *State, v Val, from, to types.Type) Val {
	from, to = types.Unalias(from), types.Unalias(to)
	wf, sf, okf := intInfo(from)
	wt, stt, okt := intInfo(to)
	if okf && okt {
		tm := v.(*Term)
		if wf == 0 {
			return x.wrapTo(tm, to)
		}
		fits := (sf == stt && wf <= wt) || (!sf && stt && wf < wt)
		if fits {
			return tm
		}
		if wf == wt && wf < 64 {
			// reinterpretation between signed and unsigned of the same width
			m := mkBig(pow2(wt))
			if stt {
				return mkIte(mkLe(mkBig(pow2(wt-1)), tm), mkSub(tm, m), tm)
			}
			return mkIte(mkLt(tm, mkInt(0)), mkAdd(tm, m), tm)
		}
		return wrapInt(tm, wt, stt)
	}
	ft, isF := from.Underlying().(*types.Basic)
	tt, isT := to.Underlying().(*types.Basic)
	if isF && isT {
		if ft.Info()&types.IsFloat != 0 || tt.Info()&types.IsFloat != 0 {
			tm := x.toTerm(v, from)
			r := mkApp(fmt.Sprintf("conv:%s:%s", ft.Name(), tt.Name()), x.env.te.sortOf(to), tm)
			x.assumeTyped(st, to, r)
			return r
		}
		if ft.Kind() == types.UnsafePointer || tt.Kind() == types.UnsafePointer {
			x.unsup("unsafe pointer conversion")
		}
		if ft.Info()&types.IsString != 0 && tt.Info()&types.IsString != 0 {
			return v
		}
		if okf && tt.Info()&types.IsString != 0 {
			return fresh("str.fromint", sortStr)
		}
	}
	// string <-> []byte
	if _, ok := to.Underlying().(*types.Slice); ok {
		if isF && ft.Info()&types.IsString != 0 {
			s := v.(*Term)
			et := to.Underlying().(*types.Slice).Elem()
			r := x.allocArray(st, et, strLen(s))
			hn, so := x.env.te.elemHeap(et)
			st.setH(hn, mkStore(st.H(hn, so), r, fresh("bytes.of.str", so.Elem)))
			return mkSlice(r, mkInt(0), strLen(s), strLen(s))
		}
	}
	if isT && tt.Info()&types.IsString != 0 {
		if _, ok := from.Underlying().(*types.Slice); ok {
			s := x.toTerm(v, from)
			r := fresh("str.of.bytes", sortStr)
			x.assume(st, mkEq(strLen(r), sliceLen(s)))
			return r
		}
	}
	if types.Identical(from.Underlying(), to.Underlying()) {
		return v
	}
	if _, ok := to.Underlying().(*types.Pointer); ok {
		return v
	}
	x.unsup("conversion %v -> %v", from, to)
	return nil
}

// wrapSum wraps the sum/difference of two in-range values of a w-bit type: a single
// conditional correction instead of mod (both operands are in range by typing).
func wrapSum(v *Term, w int, signed bool) *Term {
	if w == 0 || w == 64 {
		return v
	}
	if isInt(v) {
		return wrapInt(v, w, signed)
	}
	m := mkBig(pow2(w))
	if !signed {
		return mkIte(mkLt(v, mkInt(0)), mkAdd(v, m), mkIte(mkLe(m, v), mkSub(v, m), v))
	}
	h := mkBig(pow2(w - 1))
	return mkIte(mkLt(v, mkNeg(h)), mkAdd(v, m), mkIte(mkLe(h, v), mkSub(v, m), v))
}

// ---- binary operators ----

func tdiv(a, b *Term) *Term {
	// Go truncated division
	if isInt(a) && isInt(b) && b.Val.Sign() != 0 {
		return mkBig(new(big.Int).Quo(a.Val, b.Val))
	}
	pa, pb := mkLe(mkInt(0), a), mkLt(mkInt(0), b)
	return mkIte(pb,
		mkIte(pa, mkDiv(a, b), mkNeg(mkDiv(mkNeg(a), b))),
		mkIte(pa, mkNeg(mkDiv(a, mkNeg(b))), mkDiv(mkNeg(a), mkNeg(b))))
}

func trem(a, b *Term) *Term {
	if isInt(a) && isInt(b) && b.Val.Sign() != 0 {
		return mkBig(new(big.Int).Rem(a.Val, b.Val))
	}
	absb := mkIte(mkLt(mkInt(0), b), b, mkNeg(b))
	return mkIte(mkAnd(mkLe(mkInt(0), a), mkLt(mkInt(0), b)), mkMod(a, b), mkIte(mkLe(mkInt(0), a), mkMod(a, absb), mkNeg(mkMod(mkNeg(a), absb))))
}

func bitsOf(v *big.Int) []int {
	var out []int
	for i := 0; i < v.BitLen(); i++ {
		if v.Bit(i) == 1 {
			out = append(out, i)
		}
	}
	return out
}

// bitAnd computes a & c for a constant c (a is the unsigned/two's complement value in Int).
func bitAndConst(a *Term, c *big.Int, w int) *Term {
	if c.Sign() == 0 {
		return mkInt(0)
	}
	if c.Sign() < 0 {
		c = new(big.Int).Add(c, pow2(w))
	}
	// mask of the form 2^k-1
	if new(big.Int).And(c, new(big.Int).Add(c, big.NewInt(1))).Sign() == 0 {
		return mkMod(a, mkBig(new(big.Int).Add(c, big.NewInt(1))))
	}
	bits := bitsOf(c)
	if len(bits) > 12 {
		return nil
	}
	var sum *Term = mkInt(0)
	for _, b := range bits {
		bit := mkMod(mkDiv(a, mkBig(pow2(b))), mkInt(2))
		sum = mkAdd(sum, mkMul(bit, mkBig(pow2(b))))
	}
	return sum
}

func (x *Exec) bitop(st *State, op token.Token, a, b *Term, t types.Type) *Term {
	w, sg, _ := intInfo(t)
	if w == 0 {
		w = 64
	}
	if isInt(a) && isInt(b) {
		r := new(big.Int)
		switch op {
		case token.AND:
			r.And(a.Val, b.Val)
		case token.OR:
			r.Or(a.Val, b.Val)
		case token.XOR:
			r.Xor(a.Val, b.Val)
		case token.AND_NOT:
			r.AndNot(a.Val, b.Val)
		}
		return mkBig(r)
	}
	if isInt(a) && op != token.AND_NOT {
		a, b = b, a
	}
	if isInt(b) && !sg {
		and := bitAndConst(a, b.Val, w)
		if and != nil {
			switch op {
			case token.AND:
				return and
			case token.OR:
				return mkSub(mkAdd(a, b), and)
			case token.XOR:
				return mkSub(mkAdd(a, b), mkMul(mkInt(2), and))
			case token.AND_NOT:
				return mkSub(a, and)
			}
		}
	}
	if isInt(b) && sg && op == token.AND && b.Val.Sign() >= 0 {
		if and := bitAndConst(a, b.Val, w); and != nil {
			return and
		}
	}
	if isInt(b) && sg && b.Val.Sign() >= 0 && op != token.AND {
		// exact for non-negative a; uninterpreted otherwise
		if and := bitAndConst(a, b.Val, w); and != nil {
			var exact *Term
			switch op {
			case token.OR:
				exact = mkSub(mkAdd(a, b), and)
			case token.XOR:
				exact = mkSub(mkAdd(a, b), mkMul(mkInt(2), and))
			case token.AND_NOT:
				exact = mkSub(a, and)
			}
			name := map[token.Token]string{token.OR: "bor", token.XOR: "bxor", token.AND_NOT: "bandnot"}[op]
			neg := mkApp(fmt.Sprintf("%s%d", name, w), sortInt, a, b)
			return mkIte(mkLe(mkInt(0), a), exact, neg)
		}
	}
	// uninterpreted with basic axioms
	name := map[token.Token]string{token.AND: "band", token.OR: "bor", token.XOR: "bxor", token.AND_NOT: "bandnot"}[op]
	r := mkApp(fmt.Sprintf("%s%d", name, w), sortInt, a, b)
	x.note("bit operation on two variables abstracted: " + name)
	if !sg {
		z := mkInt(0)
		switch op {
		case token.OR:
			x.assume(st, mkAnd(mkLe(a, r), mkLe(b, r), mkLe(r, mkAdd(a, b)),
				mkImp(mkEq(a, z), mkEq(r, b)), mkImp(mkEq(b, z), mkEq(r, a)), mkImp(mkEq(a, b), mkEq(r, a))))
		case token.AND:
			x.assume(st, mkAnd(mkLe(z, r), mkLe(r, a), mkLe(r, b), mkImp(mkEq(a, b), mkEq(r, a))))
		case token.XOR:
			x.assume(st, mkAnd(mkLe(z, r), mkLe(r, mkAdd(a, b)), mkImp(mkEq(a, b), mkEq(r, z)),
				mkImp(mkEq(a, z), mkEq(r, b)), mkImp(mkEq(b, z), mkEq(r, a))))
		case token.AND_NOT:
			x.assume(st, mkAnd(mkLe(z, r), mkLe(r, a)))
		}
		x.assume(st, inRange(r, w, false))
	} else {
		x.assume(st, inRange(r, w, true))
		if op == token.OR {
			z := mkInt(0)
			x.assume(st, mkAnd(mkImp(mkEq(a, z), mkEq(r, b)), mkImp(mkEq(b, z), mkEq(r, a)), mkImp(mkEq(a, b), mkEq(r, a)),
				mkImp(mkAnd(mkLe(z, a), mkLe(z, b)), mkAnd(mkLe(a, r), mkLe(b, r), mkLe(r, mkAdd(a, b))))))
		}
	}
	return r
}

func (x *Exec) binop(st *State, op token.Token, av, bv Val, at, bt, rt types.Type, pos token.Pos) Val {
	at = types.Unalias(at)
	// pointer comparison
	if _, isPtr := at.Underlying().(*types.Pointer); isPtr && !isTypeParam(at) {
		eq := x.ptrEq(av, bv, at)
		if op == token.NEQ {
			return mkNot(eq)
		}
		return eq
	}
	if pa, ok := av.(*PtrVal); ok {
		eq := x.ptrEq(pa, bv, at)
		if op == token.NEQ {
			return mkNot(eq)
		}
		return eq
	}
	a := x.toTerm(av, at)
	b := x.toTerm(bv, bt)
	if _, isSl := at.Underlying().(*types.Slice); isSl && !isTypeParam(at) {
		// only comparison with nil is legal
		var s *Term = a
		if a == nilSlice() {
			s = b
		}
		eq := mkEq(sliceRef(s), mkInt(0))
		if op == token.NEQ {
			return mkNot(eq)
		}
		return eq
	}
	_, _, isIntT := intInfo(at)
	if isTypeParam(at) {
		isIntT = false
	}
	if a.Sort == sortIface && (op == token.EQL || op == token.NEQ) {
		// comparison with the nil interface: only the dynamic type tag matters
		zero := mkCtor(sortIface, mkInt(0), mkInt(0))
		var eq *Term
		switch {
		case a == zero:
			eq = mkEq(mkSel(b, 0), mkInt(0))
		case b == zero:
			eq = mkEq(mkSel(a, 0), mkInt(0))
		default:
			eq = mkOr(mkAnd(mkEq(mkSel(a, 0), mkInt(0)), mkEq(mkSel(b, 0), mkInt(0))), mkEq(a, b))
		}
		if op == token.NEQ {
			return mkNot(eq)
		}
		return eq
	}
	if !isIntT || a.Sort != sortInt {
		switch op {
		case token.EQL:
			return mkEq(a, b)
		case token.NEQ:
			return mkNot(mkEq(a, b))
		}
		if a.Sort == sortStr {
			switch op {
			case token.ADD:
				r := mkApp("str.cat", sortStr, a, b)
				x.assume(st, mkEq(strLen(r), mkAdd(strLen(a), strLen(b))))
				return r
			case token.LSS, token.LEQ, token.GTR, token.GEQ:
				return mkApp("str.cmp."+op.String(), sortBool, a, b)
			}
		}
		if a.Sort.Kind == SUnint { // floats
			switch op {
			case token.LSS, token.LEQ, token.GTR, token.GEQ:
				return mkApp("f."+op.String(), sortBool, a, b)
			default:
				return mkApp("f."+op.String(), a.Sort, a, b)
			}
		}
		x.unsup("binop %v on %v", op, at)
	}
	w, sg, _ := intInfo(rt)
	switch op {
	case token.ADD:
		return wrapSum(mkAdd(a, b), w, sg)
	case token.SUB:
		return wrapSum(mkSub(a, b), w, sg)
	case token.MUL:
		return x.wrapTo(mkMul(a, b), rt)
	case token.QUO:
		x.assert(st, "div", x.env.srcAt(pos), mkNot(mkEq(b, mkInt(0))), pos, nil)
		if sg {
			r := x.wrapTo(tdiv(a, b), rt)
			if !isInt(b) && w > 0 {
				x.assume(st, inRange(r, w, true))
			}
			return r
		}
		q := mkDiv(a, b)
		if !isInt(b) {
			// division by a variable is non-linear for the solver: state its range explicitly
			x.assume(st, mkAnd(mkLe(mkInt(0), q), mkLe(q, a)))
		}
		return q
	case token.REM:
		x.assert(st, "div", x.env.srcAt(pos), mkNot(mkEq(b, mkInt(0))), pos, nil)
		if !isInt(b) {
			x.assume(st, modLemma(a, b))
		}
		if sg {
			return trem(a, b)
		}
		return mkMod(a, b)
	case token.SHL:
		_, bsg, _ := intInfo(bt)
		if bsg && !isInt(b) {
			x.assert(st, "shift", x.env.srcAt(pos), mkLe(mkInt(0), b), pos, nil)
		}
		if isInt(b) {
			if b.Val.Cmp(big.NewInt(int64(w))) >= 0 && w > 0 {
				return mkInt(0)
			}
			r := mkMul(a, mkBig(pow2(int(b.Val.Int64()))))
			if w == 64 {
				return wrapInt(r, 64, sg)
			}
			return x.wrapTo(r, rt)
		}
		r := mkApp(fmt.Sprintf("shl%d", w), sortInt, a, b)
		x.assume(st, inRange(r, w, sg))
		x.note("variable shift abstracted")
		return r
	case token.SHR:
		_, bsg, _ := intInfo(bt)
		if bsg && !isInt(b) {
			x.assert(st, "shift", x.env.srcAt(pos), mkLe(mkInt(0), b), pos, nil)
		}
		if isInt(b) {
			if b.Val.BitLen() > 16 {
				return mkIte(mkLt(a, mkInt(0)), mkInt(-1), mkInt(0))
			}
			return mkDiv(a, mkBig(pow2(int(b.Val.Int64()))))
		}
		r := mkApp(fmt.Sprintf("shr%d", w), sortInt, a, b)
		x.assume(st, inRange(r, w, sg))
		if !sg {
			x.assume(st, mkLe(r, a))
		}
		x.note("variable shift abstracted")
		return r
	case token.AND, token.OR, token.XOR, token.AND_NOT:
		return x.bitop(st, op, a, b, rt)
	case token.EQL:
		return mkEq(a, b)
	case token.NEQ:
		return mkNot(mkEq(a, b))
	case token.LSS:
		return mkLt(a, b)
	case token.LEQ:
		return mkLe(a, b)
	case token.GTR:
		return mkLt(b, a)
	case token.GEQ:
		return mkLe(b, a)
	}
	x.unsup("binop %v", op)
	return nil
}

func (x *Exec) ptrEq(av, bv Val, t types.Type) *Term {
	toP := func(v Val) *PtrVal {
		switch p := v.(type) {
		case *PtrVal:
			return p
		case *Term:
			et := derefType(t)
			if et != nil && structOf(et) != nil && !isTypeParam(et) && x.env.te.isObjectLike(et) {
				return &PtrVal{Nilc: mkEq(p, mkInt(0)), Base: PObj, Ref: p, BTyp: et, Typ: et}
			}
			return nil
		}
		return nil
	}
	ta, aIsT := av.(*Term)
	tb, bIsT := bv.(*Term)
	if aIsT && bIsT {
		return mkEq(ta, tb)
	}
	a, b := toP(av), toP(bv)
	if a == nil || b == nil {
		x.unsup("pointer comparison of unsupported shapes")
	}
	if a.Undef || b.Undef {
		x.unsup("comparison of undefined pointers")
	}
	if a.Base == PNil {
		return b.Nilc
	}
	if b.Base == PNil {
		return a.Nilc
	}
	if a.Base != b.Base || len(a.Path) != len(b.Path) {
		// different kinds of storage are never aliased
		return mkAnd(a.Nilc, b.Nilc)
	}
	same := []*Term{}
	switch a.Base {
	case PLocal:
		if a.Cell != b.Cell {
			return mkAnd(a.Nilc, b.Nilc)
		}
	case PGlobal:
		if a.Glob != b.Glob {
			return mkAnd(a.Nilc, b.Nilc)
		}
	case PObj:
		same = append(same, mkEq(a.Ref, b.Ref))
	case PElem:
		same = append(same, mkEq(a.Ref, b.Ref), mkEq(a.Idx, b.Idx))
	}
	for k := range a.Path {
		if a.Path[k].IsIdx != b.Path[k].IsIdx {
			return mkAnd(a.Nilc, b.Nilc)
		}
		if a.Path[k].IsIdx {
			same = append(same, mkEq(a.Path[k].Idx, b.Path[k].Idx))
		} else if a.Path[k].Field != b.Path[k].Field {
			return mkAnd(a.Nilc, b.Nilc)
		}
	}
	return mkOr(mkAnd(a.Nilc, b.Nilc), mkAnd(mkNot(a.Nilc), mkNot(b.Nilc), mkAnd(same...)))
}

// ---- channels (abstracted) ----

func (x *Exec) chanSend(fr *Frame, st *State, i *ssa.Send) {
	ch := x.term(fr, i.Chan)
	et := i.Chan.Type().Underlying().(*types.Chan).Elem()
	x.onChanSend(fr, st, ch, x.val(fr, i.X), et, i, i.Chan)
}

func (x *Exec) execSelect(fr *Frame, st *State, i *ssa.Select) {
	// result tuple: (index int, recvOk bool, r_0 T_0, ... r_n-1 T_n-1)
	idx := fresh("select.idx", sortInt)
	lo := int64(0)
	if !i.Blocking {
		lo = -1
	}
	x.assume(st, mkAnd(mkLe(mkInt(lo), idx), mkLt(idx, mkInt(int64(len(i.States))))))
	tv := &TupleVal{Elems: []Val{idx, fresh("select.ok", sortBool)}}
	for k, s := range i.States {
		if s.Dir == types.RecvOnly {
			et := s.Chan.Type().Underlying().(*types.Chan).Elem()
			v := x.chanRecv(fr, st, x.term(fr, s.Chan), et, i, s.Chan, mkEq(idx, mkInt(int64(k))))
			tv.Elems = append(tv.Elems, v)
		} else {
			// the send happens only if this case is chosen
			sub := st.clone()
			sub.pc = mkAnd(st.pc, mkEq(idx, mkInt(int64(k))))
			et := s.Chan.Type().Underlying().(*types.Chan).Elem()
			x.onChanSend(fr, sub, x.term(fr, s.Chan), x.val(fr, s.Send), et, i, s.Chan)
			for _, a := range []int{} {
				_ = a
			}
		}
	}
	if !i.Blocking && x.sequential {
		// the default case is taken only when no other case is ready; a closed channel is always
		// ready. (Only without interference: another goroutine may close it right afterwards.)
		for _, s := range i.States {
			if s.Dir == types.RecvOnly && x.env.con.CloseOnly[x.chanKey(s.Chan)] {
				g := mkSelect(st.H("ghost:closed", arraySort(sortInt, sortBool)), x.term(fr, s.Chan))
				x.assume(st, mkImp(mkEq(idx, mkInt(-1)), mkNot(g)))
			}
		}
	}
	x.note("select abstracted as non-deterministic choice")
	fr.regs[i] = tv
}
