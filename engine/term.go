package main

// Term layer: hash-consed SMT terms with light simplification and a DAG printer.

import (
	"fmt"
	"math/big"
	"sort"
	"strconv"
	"strings"
)

type SortKind int

const (
	SInt SortKind = iota
	SBool
	SArray
	SData
	SUnint
)

type Sort struct {
	Name string
	Kind SortKind
	Idx  *Sort
	Elem *Sort
	DT   *Datatype
}

type DTField struct {
	Sel  string
	Sort *Sort
}

type Datatype struct {
	Name   string
	Ctor   string
	Fields []DTField
}

var (
	sortInt  = &Sort{Name: "Int", Kind: SInt}
	sortBool = &Sort{Name: "Bool", Kind: SBool}
	sortTab  = map[string]*Sort{"Int": sortInt, "Bool": sortBool}
	dtOrder  []*Sort // datatype sorts in declaration order
	unOrder  []*Sort // uninterpreted sorts
)

func arraySort(idx, elem *Sort) *Sort {
	n := "(Array " + idx.Name + " " + elem.Name + ")"
	if s, ok := sortTab[n]; ok {
		return s
	}
	s := &Sort{Name: n, Kind: SArray, Idx: idx, Elem: elem}
	sortTab[n] = s
	return s
}

func unintSort(name string) *Sort {
	name = smtIdent(name)
	if s, ok := sortTab[name]; ok {
		return s
	}
	s := &Sort{Name: name, Kind: SUnint}
	sortTab[name] = s
	unOrder = append(unOrder, s)
	return s
}

// dataSort declares (or returns) a single-constructor record sort. fields may be
// filled in by the caller after creation (for ordering), via the returned Datatype.
func dataSort(name string, mk func(dt *Datatype)) *Sort {
	name = smtIdent(name)
	if s, ok := sortTab[name]; ok {
		return s
	}
	dt := &Datatype{Name: name, Ctor: "mk" + strings.Trim(name, "|")}
	dt.Ctor = smtIdent(dt.Ctor)
	s := &Sort{Name: name, Kind: SData, DT: dt}
	sortTab[name] = s
	mk(dt)
	dtOrder = append(dtOrder, s)
	return s
}

func smtIdent(s string) string {
	simple := true
	for _, c := range s {
		if !(c >= 'a' && c <= 'z' || c >= 'A' && c <= 'Z' || c >= '0' && c <= '9' || strings.ContainsRune("_.$@!#%^~-", c)) {
			simple = false
			break
		}
	}
	if simple && s != "" && !(s[0] >= '0' && s[0] <= '9') {
		return s
	}
	if strings.HasPrefix(s, "|") {
		return s
	}
	s = strings.ReplaceAll(s, "|", "!")
	s = strings.ReplaceAll(s, "\\", "!")
	return "|" + s + "|"
}

type Op int

const (
	OpInt Op = iota
	OpTrue
	OpFalse
	OpVar   // declared constant
	OpBound // quantifier-bound variable
	OpApp   // uninterpreted function application (Name)
	OpAdd
	OpSub
	OpMul
	OpDiv
	OpMod
	OpNeg
	OpLt
	OpLe
	OpEq
	OpNot
	OpAnd
	OpOr
	OpImp
	OpIte
	OpSelect
	OpStore
	OpCtor
	OpSel
	OpForall
	OpExists
	OpConstArr
)

type Term struct {
	Op     Op
	Args   []*Term
	Sort   *Sort
	Name   string
	Val    *big.Int
	Bound  []*Term
	Alt    []*Term // equivalent versions of a quantified formula with other trigger-friendly parametrisations
	id     int
	closed bool
	size   int
}

type ufDecl struct {
	Name string
	Args []*Sort
	Ret  *Sort
}

var (
	termTab  = map[string]*Term{}
	termSeq  int
	ufTab    = map[string]*ufDecl{}
	tTrue    = intern(&Term{Op: OpTrue, Sort: sortBool})
	tFalse   = intern(&Term{Op: OpFalse, Sort: sortBool})
	freshSeq = map[string]int{}
)

func (t *Term) key() string {
	var sb strings.Builder
	sb.WriteString(strconv.Itoa(int(t.Op)))
	sb.WriteByte(':')
	sb.WriteString(t.Name)
	if t.Val != nil {
		sb.WriteByte('#')
		sb.WriteString(t.Val.String())
	}
	if t.Op == OpVar || t.Op == OpBound || t.Op == OpConstArr || t.Op == OpApp {
		sb.WriteByte('~')
		sb.WriteString(t.Sort.Name)
	}
	for _, a := range t.Args {
		sb.WriteByte(',')
		sb.WriteString(strconv.Itoa(a.id))
	}
	for _, b := range t.Bound {
		sb.WriteByte(';')
		sb.WriteString(strconv.Itoa(b.id))
	}
	return sb.String()
}

func intern(t *Term) *Term {
	k := t.key()
	if o, ok := termTab[k]; ok {
		return o
	}
	termSeq++
	t.id = termSeq
	t.closed = t.Op != OpBound
	t.size = 1
	for _, a := range t.Args {
		t.size += a.size
		if t.size > 1<<30 {
			t.size = 1 << 30
		}
	}
	if len(t.Bound) > 0 {
		t.closed = false
		t.closed = len(freeBound(t)) == 0
	} else {
		for _, a := range t.Args {
			if !a.closed {
				t.closed = false
			}
		}
	}
	termTab[k] = t
	return t
}

func freeBound(t *Term) map[*Term]bool {
	out := map[*Term]bool{}
	var walk func(t *Term, bound map[*Term]bool, seen map[*Term]bool)
	walk = func(t *Term, bound map[*Term]bool, seen map[*Term]bool) {
		if t.closed && t.id != 0 {
			return
		}
		if t.Op == OpBound {
			if !bound[t] {
				out[t] = true
			}
			return
		}
		if seen[t] {
			return
		}
		seen[t] = true
		if len(t.Bound) > 0 {
			nb := map[*Term]bool{}
			for k := range bound {
				nb[k] = true
			}
			for _, b := range t.Bound {
				nb[b] = true
			}
			ns := map[*Term]bool{}
			for _, a := range t.Args {
				walk(a, nb, ns)
			}
			return
		}
		for _, a := range t.Args {
			walk(a, bound, seen)
		}
	}
	walk(t, map[*Term]bool{}, map[*Term]bool{})
	return out
}

func freeBoundSlow(t *Term) map[*Term]bool {
	out := map[*Term]bool{}
	var walk func(t *Term, bound map[*Term]bool)
	walk = func(t *Term, bound map[*Term]bool) {
		if t.Op == OpBound {
			if !bound[t] {
				out[t] = true
			}
			return
		}
		nb := bound
		if len(t.Bound) > 0 {
			nb = map[*Term]bool{}
			for k := range bound {
				nb[k] = true
			}
			for _, b := range t.Bound {
				nb[b] = true
			}
		}
		for _, a := range t.Args {
			walk(a, nb)
		}
	}
	walk(t, map[*Term]bool{})
	return out
}

// resetTerms drops the hash-consing tables (between independent verification units).
func resetTerms() {
	termTab = map[string]*Term{}
	intern(tTrue)
	intern(tFalse)
	varSerial = map[*Term]int{}
}

// ---- constructors ----

func mkInt(n int64) *Term { return mkBig(big.NewInt(n)) }
func mkBig(n *big.Int) *Term {
	return intern(&Term{Op: OpInt, Sort: sortInt, Val: new(big.Int).Set(n)})
}
func mkBool(b bool) *Term {
	if b {
		return tTrue
	}
	return tFalse
}
func pow2(w int) *big.Int { return new(big.Int).Lsh(big.NewInt(1), uint(w)) }

func mkVar(name string, s *Sort) *Term {
	return intern(&Term{Op: OpVar, Name: smtIdent(name), Sort: s})
}

// fresh returns a new declared constant with a unique name derived from base.
func fresh(base string, s *Sort) *Term {
	freshSeq[base]++
	v := mkVar(fmt.Sprintf("%s!%d", base, freshSeq[base]), s)
	serialCounter++
	varSerial[v] = serialCounter
	return v
}

var (
	varSerial     = map[*Term]int{}
	serialCounter int
)

// newerThan: does t mention a fresh symbol created after serial s0?
func newerThan(t *Term, s0 int) bool {
	for _, v := range collectVars(t) {
		if varSerial[v] > s0 {
			return true
		}
	}
	return false
}

func mkBound(name string, s *Sort) *Term {
	freshSeq["$b"]++
	return intern(&Term{Op: OpBound, Name: smtIdent(fmt.Sprintf("%s?%d", name, freshSeq["$b"])), Sort: s})
}

func mkApp(name string, ret *Sort, args ...*Term) *Term {
	name = smtIdent(name)
	if _, ok := ufTab[name]; !ok {
		d := &ufDecl{Name: name, Ret: ret}
		for _, a := range args {
			d.Args = append(d.Args, a.Sort)
		}
		ufTab[name] = d
	}
	return intern(&Term{Op: OpApp, Name: name, Sort: ret, Args: args})
}

func isInt(t *Term) bool { return t.Op == OpInt }

func mkAdd(a, b *Term) *Term {
	if isInt(a) && isInt(b) {
		return mkBig(new(big.Int).Add(a.Val, b.Val))
	}
	if isInt(a) && a.Val.Sign() == 0 {
		return b
	}
	if isInt(b) && b.Val.Sign() == 0 {
		return a
	}
	// (x + c1) + c2
	if isInt(b) && a.Op == OpAdd && isInt(a.Args[1]) {
		return mkAdd(a.Args[0], mkBig(new(big.Int).Add(a.Args[1].Val, b.Val)))
	}
	if isInt(b) && a.Op == OpSub && isInt(a.Args[1]) {
		return mkAdd(a.Args[0], mkBig(new(big.Int).Sub(b.Val, a.Args[1].Val)))
	}
	if isInt(a) && !isInt(b) {
		return mkAdd(b, a)
	}
	// c + (x - c) = x ; (x - c) + c = x
	if b.Op == OpSub && b.Args[1] == a {
		return b.Args[0]
	}
	if a.Op == OpSub && a.Args[1] == b {
		return a.Args[0]
	}
	if isInt(b) && b.Val.Sign() < 0 {
		return intern(&Term{Op: OpSub, Sort: sortInt, Args: []*Term{a, mkBig(new(big.Int).Neg(b.Val))}})
	}
	return intern(&Term{Op: OpAdd, Sort: sortInt, Args: []*Term{a, b}})
}

func mkSub(a, b *Term) *Term {
	if isInt(b) {
		return mkAdd(a, mkBig(new(big.Int).Neg(b.Val)))
	}
	if a == b {
		return mkInt(0)
	}
	if isInt(a) && a.Val.Sign() == 0 {
		return mkNeg(b)
	}
	// (x + c) - x
	if a.Op == OpAdd && a.Args[0] == b {
		return a.Args[1]
	}
	return intern(&Term{Op: OpSub, Sort: sortInt, Args: []*Term{a, b}})
}

func mkNeg(a *Term) *Term {
	if isInt(a) {
		return mkBig(new(big.Int).Neg(a.Val))
	}
	if a.Op == OpNeg {
		return a.Args[0]
	}
	return intern(&Term{Op: OpNeg, Sort: sortInt, Args: []*Term{a}})
}

func mkMul(a, b *Term) *Term {
	if isInt(a) && isInt(b) {
		return mkBig(new(big.Int).Mul(a.Val, b.Val))
	}
	if isInt(a) && !isInt(b) {
		a, b = b, a
	}
	if isInt(b) {
		if b.Val.Sign() == 0 {
			return mkInt(0)
		}
		if b.Val.Cmp(big.NewInt(1)) == 0 {
			return a
		}
	}
	// non-linear product with a conditional factor: distribute, so that both branches become
	// the same syntactic terms the code computed on each path
	if !isInt(b) && a.Op == OpIte && a.size < 400 {
		return mkIte(a.Args[0], mkMul(a.Args[1], b), mkMul(a.Args[2], b))
	}
	if !isInt(a) && b.Op == OpIte && b.size < 400 {
		return mkIte(b.Args[0], mkMul(a, b.Args[1]), mkMul(a, b.Args[2]))
	}
	return intern(&Term{Op: OpMul, Sort: sortInt, Args: []*Term{a, b}})
}

func floorDivMod(a, b *big.Int) (*big.Int, *big.Int) {
	// Euclidean division as in SMT-LIB
	q, m := new(big.Int), new(big.Int)
	q.DivMod(a, b, m) // big.Int DivMod is Euclidean
	return q, m
}

func mkDiv(a, b *Term) *Term {
	if isInt(a) && isInt(b) && b.Val.Sign() != 0 {
		q, _ := floorDivMod(a.Val, b.Val)
		return mkBig(q)
	}
	if isInt(b) && b.Val.Cmp(big.NewInt(1)) == 0 {
		return a
	}
	return intern(&Term{Op: OpDiv, Sort: sortInt, Args: []*Term{a, b}})
}

func mkMod(a, b *Term) *Term {
	if isInt(a) && isInt(b) && b.Val.Sign() != 0 {
		_, m := floorDivMod(a.Val, b.Val)
		return mkBig(m)
	}
	if isInt(b) && b.Val.Cmp(big.NewInt(1)) == 0 {
		return mkInt(0)
	}
	if isInt(b) && a.Op == OpIte && a.size < 400 && (a.Args[1].Op == OpMul || a.Args[2].Op == OpMul) {
		return mkIte(a.Args[0], mkMod(a.Args[1], b), mkMod(a.Args[2], b))
	}
	// mod (mod x m) m = mod x m ; mod (mod x (k*m)) m = mod x m
	if a.Op == OpMod && isInt(b) && isInt(a.Args[1]) && b.Val.Sign() > 0 {
		r := new(big.Int).Mod(a.Args[1].Val, b.Val)
		if r.Sign() == 0 {
			return mkMod(a.Args[0], b)
		}
	}
	return intern(&Term{Op: OpMod, Sort: sortInt, Args: []*Term{a, b}})
}

func mkLt(a, b *Term) *Term {
	if isInt(a) && isInt(b) {
		return mkBool(a.Val.Cmp(b.Val) < 0)
	}
	if a == b {
		return tFalse
	}
	return intern(&Term{Op: OpLt, Sort: sortBool, Args: []*Term{a, b}})
}
func mkLe(a, b *Term) *Term {
	if isInt(a) && isInt(b) {
		return mkBool(a.Val.Cmp(b.Val) <= 0)
	}
	if a == b {
		return tTrue
	}
	return intern(&Term{Op: OpLe, Sort: sortBool, Args: []*Term{a, b}})
}
func mkGt(a, b *Term) *Term { return mkLt(b, a) }
func mkGe(a, b *Term) *Term { return mkLe(b, a) }

func mkEq(a, b *Term) *Term {
	if a == b {
		return tTrue
	}
	if a.Sort != b.Sort {
		panic(fmt.Sprintf("mkEq sort mismatch: %s vs %s\n  %s\n  %s", a.Sort.Name, b.Sort.Name, a, b))
	}
	if isInt(a) && isInt(b) {
		return mkBool(a.Val.Cmp(b.Val) == 0)
	}
	if a.Sort == sortBool {
		if a == tTrue {
			return b
		}
		if b == tTrue {
			return a
		}
		if a == tFalse {
			return mkNot(b)
		}
		if b == tFalse {
			return mkNot(a)
		}
	}
	if a.Op == OpCtor && b.Op == OpCtor && a.Name == b.Name {
		var cs []*Term
		for i := range a.Args {
			cs = append(cs, mkEq(a.Args[i], b.Args[i]))
		}
		return mkAnd(cs...)
	}
	if a.id > b.id {
		a, b = b, a
	}
	return intern(&Term{Op: OpEq, Sort: sortBool, Args: []*Term{a, b}})
}

func mkNot(a *Term) *Term {
	switch a.Op {
	case OpTrue:
		return tFalse
	case OpFalse:
		return tTrue
	case OpNot:
		return a.Args[0]
	case OpLt:
		return mkLe(a.Args[1], a.Args[0])
	case OpLe:
		return mkLt(a.Args[1], a.Args[0])
	}
	return intern(&Term{Op: OpNot, Sort: sortBool, Args: []*Term{a}})
}

func mkAnd(as ...*Term) *Term {
	var out []*Term
	seen := map[*Term]bool{}
	for _, a := range as {
		if a == tTrue {
			continue
		}
		if a == tFalse {
			return tFalse
		}
		if a.Op == OpAnd {
			for _, x := range a.Args {
				if !seen[x] {
					seen[x] = true
					out = append(out, x)
				}
			}
			continue
		}
		if !seen[a] {
			seen[a] = true
			out = append(out, a)
		}
	}
	for _, a := range out {
		if seen[mkNot(a)] {
			return tFalse
		}
	}
	switch len(out) {
	case 0:
		return tTrue
	case 1:
		return out[0]
	}
	return intern(&Term{Op: OpAnd, Sort: sortBool, Args: out})
}

func mkOr(as ...*Term) *Term {
	var out []*Term
	seen := map[*Term]bool{}
	for _, a := range as {
		if a == tFalse {
			continue
		}
		if a == tTrue {
			return tTrue
		}
		if a.Op == OpOr {
			for _, x := range a.Args {
				if !seen[x] {
					seen[x] = true
					out = append(out, x)
				}
			}
			continue
		}
		if !seen[a] {
			seen[a] = true
			out = append(out, a)
		}
	}
	for _, a := range out {
		if seen[mkNot(a)] {
			return tTrue
		}
	}
	switch len(out) {
	case 0:
		return tFalse
	case 1:
		return out[0]
	}
	return intern(&Term{Op: OpOr, Sort: sortBool, Args: out})
}

func mkImp(a, b *Term) *Term {
	if a == tTrue {
		return b
	}
	if a == tFalse || b == tTrue {
		return tTrue
	}
	if b == tFalse {
		return mkNot(a)
	}
	if a == b {
		return tTrue
	}
	return intern(&Term{Op: OpImp, Sort: sortBool, Args: []*Term{a, b}})
}

func mkIte(c, a, b *Term) *Term {
	if c == tTrue {
		return a
	}
	if c == tFalse {
		return b
	}
	if a == b {
		return a
	}
	if a.Sort != b.Sort {
		panic(fmt.Sprintf("mkIte sort mismatch: %s vs %s", a.Sort.Name, b.Sort.Name))
	}
	if a.Sort == sortBool {
		if a == tTrue && b == tFalse {
			return c
		}
		if a == tFalse && b == tTrue {
			return mkNot(c)
		}
		if a == tTrue {
			return mkOr(c, b)
		}
		if b == tFalse {
			return mkAnd(c, a)
		}
		if a == tFalse {
			return mkAnd(mkNot(c), b)
		}
		if b == tTrue {
			return mkOr(mkNot(c), a)
		}
	}
	// ite(c, x, ite(c, y, z)) = ite(c, x, z)
	if b.Op == OpIte && b.Args[0] == c {
		return mkIte(c, a, b.Args[2])
	}
	if a.Op == OpIte && a.Args[0] == c {
		return mkIte(c, a.Args[1], b)
	}
	return intern(&Term{Op: OpIte, Sort: a.Sort, Args: []*Term{c, a, b}})
}

// distinctLits: both integer literals and different
func provablyDistinct(a, b *Term) bool {
	if isInt(a) && isInt(b) {
		return a.Val.Cmp(b.Val) != 0
	}
	// x + c1 vs x + c2
	ba, ca := splitConst(a)
	bb, cb := splitConst(b)
	if ba == bb && ca.Cmp(cb) != 0 {
		return true
	}
	return false
}

func splitConst(a *Term) (*Term, *big.Int) {
	if isInt(a) {
		return nil, a.Val
	}
	if a.Op == OpAdd && isInt(a.Args[1]) {
		return a.Args[0], a.Args[1].Val
	}
	if a.Op == OpSub && isInt(a.Args[1]) {
		return a.Args[0], new(big.Int).Neg(a.Args[1].Val)
	}
	return a, big.NewInt(0)
}

func mkSelect(arr, idx *Term) *Term {
	if arr.Sort.Kind != SArray {
		panic("mkSelect on non-array " + arr.Sort.Name + ": " + arr.String())
	}
	if idx.Sort != arr.Sort.Idx {
		panic(fmt.Sprintf("mkSelect index sort %s, want %s", idx.Sort.Name, arr.Sort.Idx.Name))
	}
	for arr.Op == OpStore {
		if arr.Args[1] == idx {
			return arr.Args[2]
		}
		if provablyDistinct(arr.Args[1], idx) {
			arr = arr.Args[0]
			continue
		}
		break
	}
	if arr.Op == OpConstArr {
		return arr.Args[0]
	}
	if arr.Op == OpIte && arr.size < 64 {
		// push select into small ite so that store-chains fold
		a, b := mkSelect(arr.Args[1], idx), mkSelect(arr.Args[2], idx)
		return mkIte(arr.Args[0], a, b)
	}
	return intern(&Term{Op: OpSelect, Sort: arr.Sort.Elem, Args: []*Term{arr, idx}})
}

func mkStore(arr, idx, v *Term) *Term {
	if v.Sort != arr.Sort.Elem {
		panic(fmt.Sprintf("mkStore elem sort %s, want %s", v.Sort.Name, arr.Sort.Elem.Name))
	}
	if idx.Sort != arr.Sort.Idx {
		panic(fmt.Sprintf("mkStore index sort %s, want %s", idx.Sort.Name, arr.Sort.Idx.Name))
	}
	if arr.Op == OpStore && arr.Args[1] == idx {
		arr = arr.Args[0]
	}
	if v.Op == OpSelect && v.Args[0] == arr && v.Args[1] == idx {
		return arr
	}
	return intern(&Term{Op: OpStore, Sort: arr.Sort, Args: []*Term{arr, idx, v}})
}

func mkConstArr(s *Sort, v *Term) *Term {
	return intern(&Term{Op: OpConstArr, Sort: s, Args: []*Term{v}})
}

func mkCtor(s *Sort, args ...*Term) *Term {
	if len(args) != len(s.DT.Fields) {
		panic("mkCtor arity " + s.Name)
	}
	for i, a := range args {
		if a.Sort != s.DT.Fields[i].Sort {
			panic(fmt.Sprintf("mkCtor %s field %s: sort %s want %s", s.Name, s.DT.Fields[i].Sel, a.Sort.Name, s.DT.Fields[i].Sort.Name))
		}
	}
	// eta: mk(sel0 x, sel1 x, ...) = x
	if len(args) > 0 && args[0].Op == OpSel && args[0].Args[0].Sort == s {
		x := args[0].Args[0]
		ok := true
		for i, a := range args {
			if a.Op != OpSel || a.Args[0] != x || a.Name != s.DT.Fields[i].Sel {
				ok = false
				break
			}
		}
		if ok {
			return x
		}
	}
	return intern(&Term{Op: OpCtor, Sort: s, Name: s.DT.Ctor, Args: args})
}

func mkSel(t *Term, i int) *Term {
	dt := t.Sort.DT
	if dt == nil {
		panic("mkSel on non-datatype " + t.Sort.Name)
	}
	if t.Op == OpCtor {
		return t.Args[i]
	}
	if t.Op == OpIte && t.size < 200 {
		return mkIte(t.Args[0], mkSel(t.Args[1], i), mkSel(t.Args[2], i))
	}
	return intern(&Term{Op: OpSel, Sort: dt.Fields[i].Sort, Name: dt.Fields[i].Sel, Args: []*Term{t}})
}

// mkUpd returns t with field i replaced by v.
func mkUpd(t *Term, i int, v *Term) *Term {
	dt := t.Sort.DT
	args := make([]*Term, len(dt.Fields))
	for k := range dt.Fields {
		if k == i {
			args[k] = v
		} else {
			args[k] = mkSel(t, k)
		}
	}
	return mkCtor(t.Sort, args...)
}

func mkQuant(op Op, bound []*Term, body *Term) *Term {
	if body == tTrue || body == tFalse {
		return body
	}
	fb := freeBound(body)
	var used []*Term
	for _, b := range bound {
		if fb[b] {
			used = append(used, b)
		}
	}
	if len(used) == 0 {
		return body
	}
	return intern(&Term{Op: op, Sort: sortBool, Args: []*Term{body}, Bound: used})
}
func mkForall(bound []*Term, body *Term) *Term {
	return mkForallD(bound, body, 0)
}

func mkForallD(bound []*Term, body *Term, depth int) *Term {
	if depth < 3 {
		if it := findIndexIte(body); it != nil {
			c := it.Args[0]
			b1 := subst(body, map[*Term]*Term{it: it.Args[1]})
			b2 := subst(body, map[*Term]*Term{it: it.Args[2]})
			return mkAnd(mkForallD(bound, mkImp(c, b1), depth+1), mkForallD(bound, mkImp(mkNot(c), b2), depth+1))
		}
	}
	vs := reparamAll(bound, body)
	prim := mkQuant(OpForall, vs[0].bound, vs[0].body)
	if len(vs) > 1 && prim.Op == OpForall && prim.Alt == nil {
		for _, v := range vs[1:] {
			a := mkQuant(OpForall, v.bound, v.body)
			if a != prim {
				prim.Alt = append(prim.Alt, a)
			}
		}
	}
	return prim
}

type qversion struct {
	bound []*Term
	body  *Term
}

// reparamAll returns equivalent versions of (forall bound. body): for a bound variable b that
// occurs in array indices as c_k + b (c_k closed), one version per k quantifying over the
// absolute index c_k + b, so that ground selects on that array match syntactically. The first
// version is the one whose array term is the most recently created (post-state).
func reparamAll(bound []*Term, body *Term) []qversion {
	type form struct {
		idx *Term
		c   *Term
		arr int
	}
	cur := qversion{append([]*Term{}, bound...), body}
	var alts []qversion
	for bi := range bound {
		b := cur.bound[bi]
		forms := map[*Term]*form{}
		seen := map[*Term]bool{}
		ok := true
		var walk func(t *Term)
		walk = func(t *Term) {
			if t.closed || seen[t] {
				return
			}
			seen[t] = true
			if t.Op == OpSelect || t.Op == OpStore {
				idx := t.Args[1]
				if !idx.closed && occurs(idx, b) {
					f := forms[idx]
					if f == nil {
						f = &form{idx: idx}
						forms[idx] = f
					}
					if t.Args[0].id > f.arr {
						f.arr = t.Args[0].id
					}
				}
			}
			for _, ib := range t.Bound {
				if ib == b {
					ok = false
				}
			}
			for _, a := range t.Args {
				walk(a)
			}
		}
		walk(cur.body)
		if !ok || len(forms) == 0 || len(forms) > 3 {
			continue
		}
		var fl []*form
		for _, f := range forms {
			if f.idx == b {
				fl = nil
				break
			}
			other := false
			for _, ob := range cur.bound {
				if ob != b && occurs(f.idx, ob) {
					other = true
				}
			}
			if other {
				continue
			}
			if f.c = linearOffset(f.idx, b, cur.bound); f.c != nil {
				fl = append(fl, f)
			}
		}
		if len(fl) == 0 {
			continue
		}
		sort.Slice(fl, func(i, j int) bool {
			if fl[i].arr != fl[j].arr {
				return fl[i].arr > fl[j].arr
			}
			return fl[i].idx.id > fl[j].idx.id
		})
		mk := func(f *form, from qversion) qversion {
			nb := mkBound("k", b.Sort)
			nbody := subst(from.body, map[*Term]*Term{f.idx: nb, b: mkSub(nb, f.c)})
			nbound := append([]*Term{}, from.bound...)
			nbound[bi] = nb
			return qversion{nbound, nbody}
		}
		if len(alts) == 0 {
			for _, f := range fl[1:] {
				alts = append(alts, mk(f, cur))
			}
		}
		cur = mk(fl[0], cur)
	}
	return append([]qversion{cur}, alts...)
}

// findIndexIte: an integer-valued ite with a non-closed condition occurring in an array index.
func findIndexIte(body *Term) *Term {
	var found *Term
	seen := map[*Term]bool{}
	seenIdx := map[*Term]bool{}
	var inIdx func(t *Term)
	inIdx = func(t *Term) {
		if found != nil || t.closed || seenIdx[t] {
			return
		}
		seenIdx[t] = true
		if t.Op == OpIte && t.Sort == sortInt && !t.Args[0].closed {
			found = t
			return
		}
		if t.Op == OpSelect || t.Op == OpStore {
			return
		}
		for _, a := range t.Args {
			inIdx(a)
		}
	}
	var walk func(t *Term)
	walk = func(t *Term) {
		if found != nil || t.closed || seen[t] {
			return
		}
		seen[t] = true
		if len(t.Bound) > 0 {
			return // do not look into nested quantifiers
		}
		if t.Op == OpSelect || t.Op == OpStore {
			inIdx(t.Args[1])
		}
		for _, a := range t.Args {
			walk(a)
		}
	}
	walk(body)
	return found
}

// linearOffset: if t == c + b for a term c not mentioning any variable of vars, return c.
func linearOffset(t, b *Term, vars []*Term) *Term {
	free := func(u *Term) bool {
		if u.closed {
			return true
		}
		for _, v := range vars {
			if occurs(u, v) {
				return false
			}
		}
		return true
	}
	var rec func(t *Term) *Term
	rec = func(t *Term) *Term {
		if t == b {
			return mkInt(0)
		}
		if free(t) {
			return nil
		}
		switch t.Op {
		case OpAdd:
			x, y := t.Args[0], t.Args[1]
			if free(y) {
				if c := rec(x); c != nil {
					return mkAdd(c, y)
				}
			}
			if free(x) {
				if c := rec(y); c != nil {
					return mkAdd(x, c)
				}
			}
		case OpSub:
			x, y := t.Args[0], t.Args[1]
			if free(y) {
				if c := rec(x); c != nil {
					return mkSub(c, y)
				}
			}
		}
		return nil
	}
	return rec(t)
}

func occurs(t, v *Term) bool {
	seen := map[*Term]bool{}
	var rec func(t *Term) bool
	rec = func(t *Term) bool {
		if t == v {
			return true
		}
		if t.closed || seen[t] {
			return false
		}
		seen[t] = true
		for _, a := range t.Args {
			if rec(a) {
				return true
			}
		}
		return false
	}
	return rec(t)
}
func mkExists(bound []*Term, body *Term) *Term { return mkQuant(OpExists, bound, body) }

func mkMin(a, b *Term) *Term { return mkIte(mkLe(a, b), a, b) }
func mkMax(a, b *Term) *Term { return mkIte(mkLe(a, b), b, a) }

// wrapInt reduces t into the range of a w-bit (un)signed integer.
func wrapInt(t *Term, w int, signed bool) *Term {
	m := mkBig(pow2(w))
	if !signed {
		return mkMod(t, m)
	}
	h := mkBig(pow2(w - 1))
	return mkSub(mkMod(mkAdd(t, h), m), h)
}

func inRange(t *Term, w int, signed bool) *Term {
	if !signed {
		return mkAnd(mkLe(mkInt(0), t), mkLt(t, mkBig(pow2(w))))
	}
	return mkAnd(mkLe(mkBig(new(big.Int).Neg(pow2(w-1))), t), mkLt(t, mkBig(pow2(w-1))))
}

// subst replaces free occurrences per the map (by term identity).
func subst(t *Term, m map[*Term]*Term) *Term {
	cache := map[*Term]*Term{}
	var rec func(t *Term) *Term
	rec = func(t *Term) *Term {
		if r, ok := m[t]; ok {
			return r
		}
		if len(t.Args) == 0 {
			return t
		}
		if r, ok := cache[t]; ok {
			return r
		}
		args := make([]*Term, len(t.Args))
		ch := false
		for i, a := range t.Args {
			args[i] = rec(a)
			if args[i] != a {
				ch = true
			}
		}
		r := t
		if ch {
			r = rebuild(t, args)
		}
		cache[t] = r
		return r
	}
	return rec(t)
}

func rebuild(t *Term, a []*Term) *Term {
	switch t.Op {
	case OpApp:
		return intern(&Term{Op: OpApp, Name: t.Name, Sort: t.Sort, Args: a})
	case OpAdd:
		return mkAdd(a[0], a[1])
	case OpSub:
		return mkSub(a[0], a[1])
	case OpMul:
		return mkMul(a[0], a[1])
	case OpDiv:
		return mkDiv(a[0], a[1])
	case OpMod:
		return mkMod(a[0], a[1])
	case OpNeg:
		return mkNeg(a[0])
	case OpLt:
		return mkLt(a[0], a[1])
	case OpLe:
		return mkLe(a[0], a[1])
	case OpEq:
		return mkEq(a[0], a[1])
	case OpNot:
		return mkNot(a[0])
	case OpAnd:
		return mkAnd(a...)
	case OpOr:
		return mkOr(a...)
	case OpImp:
		return mkImp(a[0], a[1])
	case OpIte:
		return mkIte(a[0], a[1], a[2])
	case OpSelect:
		return mkSelect(a[0], a[1])
	case OpStore:
		return mkStore(a[0], a[1], a[2])
	case OpCtor:
		return mkCtor(t.Sort, a...)
	case OpSel:
		for i, f := range t.Args[0].Sort.DT.Fields {
			if f.Sel == t.Name {
				return mkSel(a[0], i)
			}
		}
		panic("rebuild sel")
	case OpForall, OpExists:
		return mkQuant(t.Op, t.Bound, a[0])
	case OpConstArr:
		return mkConstArr(t.Sort, a[0])
	}
	panic("rebuild: op")
}

// ---- printing ----

func (t *Term) String() string {
	var sb strings.Builder
	printTerm(&sb, t, nil)
	s := sb.String()
	if len(s) > 4000 {
		s = s[:4000] + "..."
	}
	return s
}

func opName(op Op) string {
	switch op {
	case OpAdd:
		return "+"
	case OpSub:
		return "-"
	case OpMul:
		return "*"
	case OpDiv:
		return "div"
	case OpMod:
		return "mod"
	case OpNeg:
		return "-"
	case OpLt:
		return "<"
	case OpLe:
		return "<="
	case OpEq:
		return "="
	case OpNot:
		return "not"
	case OpAnd:
		return "and"
	case OpOr:
		return "or"
	case OpImp:
		return "=>"
	case OpIte:
		return "ite"
	case OpSelect:
		return "select"
	case OpStore:
		return "store"
	}
	return "?"
}

// printTerm prints t; names maps already-defined shared subterms to their names.
func printTerm(sb *strings.Builder, t *Term, names map[*Term]string) {
	if names != nil {
		if n, ok := names[t]; ok {
			sb.WriteString(n)
			return
		}
	}
	switch t.Op {
	case OpInt:
		if t.Val.Sign() < 0 {
			sb.WriteString("(- ")
			sb.WriteString(new(big.Int).Neg(t.Val).String())
			sb.WriteString(")")
		} else {
			sb.WriteString(t.Val.String())
		}
	case OpTrue:
		sb.WriteString("true")
	case OpFalse:
		sb.WriteString("false")
	case OpVar, OpBound:
		sb.WriteString(t.Name)
	case OpApp, OpCtor, OpSel:
		if len(t.Args) == 0 {
			sb.WriteString(t.Name)
			return
		}
		sb.WriteString("(")
		sb.WriteString(t.Name)
		for _, a := range t.Args {
			sb.WriteString(" ")
			printTerm(sb, a, names)
		}
		sb.WriteString(")")
	case OpForall, OpExists:
		if t.Op == OpForall {
			sb.WriteString("(forall (")
		} else {
			sb.WriteString("(exists (")
		}
		for _, b := range t.Bound {
			sb.WriteString("(")
			sb.WriteString(b.Name)
			sb.WriteString(" ")
			sb.WriteString(b.Sort.Name)
			sb.WriteString(")")
		}
		sb.WriteString(") ")
		printTerm(sb, t.Args[0], names)
		sb.WriteString(")")
	case OpConstArr:
		sb.WriteString("((as const ")
		sb.WriteString(t.Sort.Name)
		sb.WriteString(") ")
		printTerm(sb, t.Args[0], names)
		sb.WriteString(")")
	default:
		sb.WriteString("(")
		sb.WriteString(opName(t.Op))
		for _, a := range t.Args {
			sb.WriteString(" ")
			printTerm(sb, a, names)
		}
		sb.WriteString(")")
	}
}

// Script accumulates an SMT-LIB script with on-demand declarations and sharing.
type Script struct {
	sb       strings.Builder
	declared map[string]bool
	names    map[*Term]string
	sorts    map[*Sort]bool
	nshare   int
	noShare  bool
}

func newScript(logic string) *Script {
	s := &Script{declared: map[string]bool{}, names: map[*Term]string{}, sorts: map[*Sort]bool{}}
	s.sb.WriteString("(set-option :produce-models true)\n")
	s.sb.WriteString("(set-logic " + logic + ")\n")
	return s
}

func (s *Script) declSort(so *Sort) {
	if s.sorts[so] {
		return
	}
	s.sorts[so] = true
	switch so.Kind {
	case SArray:
		s.declSort(so.Idx)
		s.declSort(so.Elem)
	case SUnint:
		fmt.Fprintf(&s.sb, "(declare-sort %s 0)\n", so.Name)
	case SData:
		for _, f := range so.DT.Fields {
			s.declSort(f.Sort)
		}
		fmt.Fprintf(&s.sb, "(declare-datatypes ((%s 0)) (((%s", so.Name, so.DT.Ctor)
		for _, f := range so.DT.Fields {
			fmt.Fprintf(&s.sb, " (%s %s)", f.Sel, f.Sort.Name)
		}
		s.sb.WriteString("))))\n")
	}
}

// prepare declares everything t needs and introduces definitions for shared closed subterms.
func (s *Script) prepare(t *Term) {
	// count references
	cnt := map[*Term]int{}
	var order []*Term
	var walk func(t *Term)
	walk = func(t *Term) {
		if _, ok := s.names[t]; ok {
			return
		}
		cnt[t]++
		if cnt[t] > 1 {
			return
		}
		for _, a := range t.Args {
			walk(a)
		}
		for _, b := range t.Bound {
			s.declSort(b.Sort)
		}
		order = append(order, t) // post-order
	}
	walk(t)
	for _, u := range order {
		switch u.Op {
		case OpVar:
			if !s.declared[u.Name] {
				s.declared[u.Name] = true
				s.declSort(u.Sort)
				fmt.Fprintf(&s.sb, "(declare-const %s %s)\n", u.Name, u.Sort.Name)
			}
		case OpApp:
			if !s.declared[u.Name] {
				s.declared[u.Name] = true
				d := ufTab[u.Name]
				s.declSort(d.Ret)
				var as []string
				for _, a := range d.Args {
					s.declSort(a)
					as = append(as, a.Name)
				}
				fmt.Fprintf(&s.sb, "(declare-fun %s (%s) %s)\n", u.Name, strings.Join(as, " "), d.Ret.Name)
			}
		case OpCtor, OpConstArr:
			s.declSort(u.Sort)
		case OpSel:
			s.declSort(u.Args[0].Sort)
		}
		if s.noShare {
			continue
		}
		if u.closed && len(u.Args) > 0 && (cnt[u] > 1 && u.size > 3 || u.size > 40 && u.Op != OpAnd) && u != t {
			s.nshare++
			n := fmt.Sprintf("$t%d", s.nshare)
			s.declSort(u.Sort)
			var sb strings.Builder
			printTerm(&sb, u, s.names)
			fmt.Fprintf(&s.sb, "(define-fun %s () %s %s)\n", n, u.Sort.Name, sb.String())
			s.names[u] = n
		}
	}
}

func (s *Script) Assert(t *Term) {
	if t == tTrue {
		return
	}
	if t.Op == OpAnd {
		for _, a := range t.Args {
			s.Assert(a)
		}
		return
	}
	if !t.closed {
		panic(fmt.Sprintf("Assert: free bound variable: %s", truncate(t.String(), 500)))
	}
	s.prepare(t)
	s.sb.WriteString("(assert ")
	printTerm(&s.sb, t, s.names)
	s.sb.WriteString(")\n")
}

func (s *Script) Raw(line string) { s.sb.WriteString(line); s.sb.WriteString("\n") }
func (s *Script) String() string  { return s.sb.String() }

// collectVars returns the declared constants occurring in t (sorted by name).
func collectVars(ts ...*Term) []*Term {
	seen := map[*Term]bool{}
	var out []*Term
	var walk func(t *Term)
	walk = func(t *Term) {
		if seen[t] {
			return
		}
		seen[t] = true
		if t.Op == OpVar {
			out = append(out, t)
		}
		for _, a := range t.Args {
			walk(a)
		}
	}
	for _, t := range ts {
		walk(t)
	}
	sort.Slice(out, func(i, j int) bool { return out[i].Name < out[j].Name })
	return out
}
