package main

// Property checks: select obligations per property, discharge, report, write evidence.

import (
	"encoding/json"
	"flag"
	"fmt"
	"go/types"
	"os"
	"os/exec"
	"path/filepath"
	"sort"
	"strconv"
	"strings"
	"time"
)

type PropUnit struct {
	Unit     string   `json:"unit"`
	Sel      []string `json:"sel"` // "all", "shared", "tag", "safety", or explicit kinds
	Lock     bool     `json:"lock,omitempty"`
	Seq      bool     `json:"seq,omitempty"`
	Guard    bool     `json:"guard,omitempty"`    // C14: lock-guard discipline on every access
	Exclude  []string `json:"exclude,omitempty"`  // keys left out of a pattern
	Closures bool     `json:"closures,omitempty"` // a pattern also matches closures ($)
}

type PropCfg struct {
	ID           string     `json:"id"`
	Title        string     `json:"title"`
	Units        []PropUnit `json:"units"`
	Explanation  string     `json:"explanation"`
	Assumptions  []string   `json:"assumptions"`
	Bounded      []string   `json:"bounded,omitempty"`
	MinObligs    int        `json:"min_obligations"`
	Extra        []string   `json:"extra_checks,omitempty"`
	CFB          bool       `json:"cfb,omitempty"`
	OnlySel      bool       `json:"only_selected,omitempty"` // do not attempt obligations outside the selection
	Level        string     `json:"level,omitempty"`
	BoundedTests []string   `json:"bounded_tests,omitempty"` // Go tests under /verif/bounded run on the real code (bounded stand-ins)
	KindPass     bool       `json:"kind_pass,omitempty"`     // C12: wrap-around kind discipline over every function
	PoolPass     bool       `json:"pool_pass,omitempty"`     // C15: pooled-buffer typestate over every function
}

type KnownFinding struct {
	Property   string `json:"property"`
	Obligation string `json:"obligation"`
	Status     string `json:"status"` // known | fixed
	Input      string `json:"input,omitempty"`
	What       string `json:"what"`
	Commit     string `json:"commit,omitempty"`
}

var safetyKinds = map[string]bool{"index": true, "slice": true, "nil": true, "div": true, "makeslice": true,
	"typeassert": true, "panic": true, "shift": true}

func hasTag(o *Oblig, tag string) bool {
	for _, t := range o.Tags {
		if t == tag {
			return true
		}
	}
	return false
}

func selected(o *Oblig, pu PropUnit, prop string) bool {
	if o.Cover {
		return true
	}
	if len(o.Tags) > 0 && !hasTag(o, prop) {
		// obligations attributed to other properties are decided by those properties' checks
		for _, s := range pu.Sel {
			if strings.HasPrefix(s, "name:") && strings.Contains(o.Name, strings.TrimPrefix(s, "name:")) {
				return true
			}
		}
		return false
	}
	for _, s := range pu.Sel {
		switch s {
		case "all":
			return true
		case "safety":
			if safetyKinds[o.Kind] {
				return true
			}
		case "tag":
			if hasTag(o, prop) {
				return true
			}
		case "tag:section", "tag:ensures", "tag:callsite":
			// tagged obligations of one kind only (a unit run in two modes)
			if hasTag(o, prop) && o.Kind == strings.TrimPrefix(s, "tag:") {
				return true
			}
		case "shared":
			if !safetyKinds[o.Kind] && len(o.Tags) == 0 {
				return true
			}
		default:
			if strings.HasPrefix(s, "name:") {
				if strings.Contains(o.Name, strings.TrimPrefix(s, "name:")) {
					return true
				}
			} else if o.Kind == s {
				return true
			}
		}
	}
	return false
}

func cmdCheck(args []string) {
	fs := flag.NewFlagSet("check", flag.ExitOnError)
	repo := fs.String("repo", "/repo", "repository")
	prop := fs.String("prop", "", "property id")
	tier := fs.String("tier", "quick", "quick|thorough")
	vdir := fs.String("verif", "/verif", "verif directory")
	evidence := fs.Bool("evidence", true, "write evidence file")
	verbose := fs.Bool("v", false, "verbose")
	fs.Parse(args)
	t0 := time.Now()
	seed := 0
	if s := os.Getenv("VERIF_SEED"); s != "" {
		seed, _ = strconv.Atoi(s)
	}
	if t := os.Getenv("VERIF_TIER"); t != "" && *tier == "" {
		*tier = t
	}
	die := func(code int, f string, a ...any) {
		fmt.Printf("ENGINE-ERROR property=%s %s\n", *prop, fmt.Sprintf(f, a...))
		os.Exit(code)
	}
	var props map[string]*PropCfg
	data, err := os.ReadFile(filepath.Join(*vdir, "props.json"))
	if err != nil {
		die(2, "props.json: %v", err)
	}
	if err := json.Unmarshal(data, &props); err != nil {
		die(2, "props.json: %v", err)
	}
	pc := props[*prop]
	if pc == nil {
		die(2, "unknown property")
	}
	pc.ID = *prop
	var known []KnownFinding
	if data, err := os.ReadFile(filepath.Join(*vdir, "known_findings.json")); err == nil {
		if err := json.Unmarshal(data, &known); err != nil {
			die(2, "known_findings.json: %v", err)
		}
	}
	env, err := loadEnv(*repo)
	if err != nil {
		// the tree does not load/type-check: undecided
		die(2, "cannot load %s: %v", *repo, err)
	}
	cfg := &SolverCfg{QuickMs: 3000, FullMs: 60000, CacheDir: filepath.Join(*vdir, ".cache"), Workers: 16,
		KeepDir: filepath.Join(*vdir, "out", *prop)}
	if *tier == "thorough" {
		cfg.FullMs = 120000
		cfg.Confirm = true
	}
	os.RemoveAll(cfg.KeepDir)
	// expand units
	type uref struct {
		key string
		pu  PropUnit
	}
	var urefs []uref
	seenU := map[string]bool{}
	var unbound []string
	for _, pu := range pc.Units {
		var keys []string
		if strings.HasSuffix(pu.Unit, "*") {
			for k := range env.funcs {
				if strings.HasPrefix(k, strings.TrimSuffix(pu.Unit, "*")) && (pu.Closures || !strings.Contains(k, "$")) {
					ex := false
					for _, e := range pu.Exclude {
						if e == k {
							ex = true
						}
					}
					if !ex {
						keys = append(keys, k)
					}
				}
			}
			sort.Strings(keys)
			if len(keys) == 0 {
				unbound = append(unbound, pu.Unit)
			}
		} else {
			if env.funcs[pu.Unit] == nil {
				unbound = append(unbound, pu.Unit)
				continue
			}
			keys = []string{pu.Unit}
		}
		for _, k := range keys {
			mk := fmt.Sprintf("%s|%v|%v", k, pu.Lock, pu.Seq)
			if !seenU[mk] {
				seenU[mk] = true
				urefs = append(urefs, uref{k, pu})
			}
		}
	}
	var units []*Unit
	puOf := map[*Unit]PropUnit{}
	for _, ur := range urefs {
		u := verifyUnit(env, ur.key, env.funcs[ur.key], UnitOpts{LockMode: ur.pu.Lock, Sequential: ur.pu.Seq, Guard: ur.pu.Guard})
		if seenU[ur.key+"|unit"] {
			// the same function in a second mode: keep obligation names apart
			sfx := "[seq]"
			if !ur.pu.Seq {
				sfx = "[interference]"
			}
			for _, o := range u.Obligs {
				o.Name = strings.Replace(o.Name, ur.key+":", ur.key+sfx+":", 1)
			}
		}
		seenU[ur.key+"|unit"] = true
		units = append(units, u)
		puOf[u] = ur.pu
	}
	// contracts naming functions that do not exist
	for k := range env.con.Funcs {
		if env.funcs[k] == nil && !strings.Contains(k, ".") {
			// library / interface contracts are keyed with a dot; plain names must exist
			unbound = append(unbound, "contract for missing function "+k)
		} else if env.funcs[k] == nil && isLocalKey(env, k) {
			unbound = append(unbound, "contract for missing function "+k)
		}
	}
	if pc.PoolPass {
		pu := runPoolDiscipline(env)
		units = append(units, pu)
		puOf[pu] = PropUnit{Unit: "pool-typestate", Sel: []string{"all"}}
	}
	if pc.KindPass {
		ku := runKindDiscipline(env)
		units = append(units, ku)
		puOf[ku] = PropUnit{Unit: "kind-discipline", Sel: []string{"all"}}
	}
	unitOf := map[*Oblig]*Unit{}
	for _, u := range units {
		for _, o := range u.Obligs {
			unitOf[o] = u
		}
	}
	dischargeAll(units, cfg, func(o *Oblig) bool {
		if !o.Cover && !selected(o, puOf[unitOf[o]], *prop) {
			if pc.OnlySel {
				o.Result = "not-attempted"
				return false
			}
			o.Short = true // not this property's obligation: one short attempt, for the evidence list
		}
		return true
	})
	// proof by instantiation (C08): shards run in parallel worker processes
	var cfbRes *cfbShardResult
	if pc.CFB {
		cfbRes = runCFBWorkers(*repo, *tier)
	}
	// bounded stand-ins: Go tests injected into the real package (never counted as proved)
	type boundedRun struct {
		Test     string  `json:"test"`
		Tier     string  `json:"bounds"`
		Passed   bool    `json:"passed"`
		Coverage string  `json:"coverage"`
		Seconds  float64 `json:"seconds"`
	}
	var boundedRuns []boundedRun
	var boundedFailed []*Oblig
	for _, bt := range pc.BoundedTests {
		src, err := os.ReadFile(filepath.Join(*vdir, "bounded", bt))
		if err != nil {
			die(2, "bounded test %s: %v", bt, err)
		}
		tb := time.Now()
		os.Setenv("VERIF_BOUND", *tier)
		replayBudget++ // bounded tests do not consume the replay budget
		rr := runReplayTest(*repo, string(src), "-run", "^TestVerifBounded$", "-v")
		cov := ""
		for _, ln := range strings.Split(rr.full, "\n") {
			if strings.HasPrefix(ln, "BOUNDED-COVERAGE:") {
				cov = strings.TrimSpace(strings.TrimPrefix(ln, "BOUNDED-COVERAGE:"))
			}
		}
		passed := rr.Attempted && strings.Contains(rr.full, "\nok ") && !strings.Contains(rr.full, "BOUNDED-VIOLATION") && !strings.Contains(rr.full, "--- FAIL")
		boundedRuns = append(boundedRuns, boundedRun{bt, *tier, passed, cov, time.Since(tb).Seconds()})
		if !passed {
			msg := ""
			for _, ln := range strings.Split(rr.full, "\n") {
				if strings.Contains(ln, "BOUNDED-VIOLATION") || strings.HasPrefix(ln, "panic:") {
					msg = strings.TrimSpace(ln)
					break
				}
			}
			boundedFailed = append(boundedFailed, &Oblig{Name: "bounded:" + bt, Kind: "bounded", Fn: "bounded", Pos: "bounded/" + bt, Result: "failed", Solver: "go test", Output: truncate(msg+"\n"+rr.Output, 3000)})
		}
	}
	// collect
	type sample struct {
		Name   string `json:"obligation"`
		Kind   string `json:"kind"`
		Pos    string `json:"pos"`
		Result string `json:"result"`
		Solver string `json:"solver"`
		Ms     int64  `json:"ms"`
	}
	total, discharged := 0, 0
	var failed []*Oblig
	var assumedUnproved []string
	notAttempted := 0
	var vacuous []*Oblig
	var slowest []sample
	var samples []sample
	var unsupported []string
	notes := map[string]bool{}
	trusted := map[string]bool{}
	inlined := map[string]bool{}
	var fnames []string
	covers, coversSat := 0, 0
	unitFail := map[string]bool{}
	for _, u := range units {
		fnames = append(fnames, u.Key)
		for _, m := range u.Unsupported {
			unsupported = append(unsupported, u.Key+": "+m)
		}
		for n := range u.Notes {
			notes[n] = true
		}
		for n := range u.Trusted {
			trusted[n] = true
		}
		for n := range u.Inlined {
			inlined[n] = true
		}
		for _, o := range u.Obligs {
			if o.Cover {
				continue
			}
			if !selected(o, puOf[u], *prop) {
				if o.Result == "not-attempted" {
					notAttempted++
				} else if o.Result != "unsat" {
					// not this property's obligation, but later obligations of the unit assume it
					assumedUnproved = append(assumedUnproved, o.Name)
				}
				continue
			}
			total++
			if o.Result == "unsat" {
				discharged++
			} else {
				failed = append(failed, o)
				unitFail[u.Key] = true
			}
			s := sample{o.Name, o.Kind, o.Pos, o.Result, o.Solver, o.TimeMs}
			slowest = append(slowest, s)
			if len(samples) < 6 && !o.Trivial && (o.Kind == "ensures" || o.Kind == "loop-preserve" || len(samples) < 2) {
				samples = append(samples, s)
			}
		}
	}
	for _, u := range units {
		for _, o := range u.Obligs {
			if !o.Cover {
				continue
			}
			covers++
			if o.Result != "unsat" {
				coversSat++
			} else if !unitFail[u.Key] {
				vacuous = append(vacuous, o)
			}
		}
	}
	failed = append(failed, boundedFailed...)
	if cfbRes != nil {
		total += cfbRes.Trivial + cfbRes.Solver
		discharged += cfbRes.Trivial + cfbRes.Discharged
		for _, m := range cfbRes.Unsup {
			unsupported = append(unsupported, m)
		}
		for _, f := range cfbRes.Failed {
			failed = append(failed, &Oblig{Name: f.Name, Kind: f.Kind, Pos: f.Pos, Result: f.Result, Solver: f.Solver, Output: f.Output, Fn: "cfb"})
		}
		for _, n := range cfbRes.Sample {
			samples = append(samples, sample{n, "ensures", "crypt.go", "unsat", "simplifier", 0})
		}
		trusted["crypto/cipher.Block.Encrypt: uninterpreted permutation; crypto/subtle.XORBytes: byte-level semantics"] = true
	}
	if len(samples) == 0 {
		// everything was closed during generation: still write a few actual cases out
		for _, s := range slowest {
			if len(samples) < 6 {
				samples = append(samples, s)
			}
		}
	}
	sort.Slice(slowest, func(i, j int) bool { return slowest[i].Ms > slowest[j].Ms })
	if len(slowest) > 5 {
		slowest = slowest[:5]
	}
	// verdicts
	exit := 0
	violations := 0
	var knownHit []string
	os.MkdirAll(filepath.Join(*vdir, "replays", *prop), 0o755)
	for _, o := range failed {
		isKnown := false
		for _, k := range known {
			if k.Property == *prop && k.Status == "known" && obligMatches(k.Obligation, o.Name) {
				fmt.Printf("KNOWN-FINDING: property=%s %s %s\n", *prop, o.Name, k.What)
				knownHit = append(knownHit, o.Name)
				isKnown = true
				break
			}
		}
		if isKnown {
			continue
		}
		violations++
		rp := writeReplay(*vdir, *prop, o, env, *repo, unitOf[o])
		suffix := ""
		if !rp.Reproduced {
			suffix = " no-failing-input-found"
		}
		fmt.Printf("VIOLATION property=%s replay=%s obligation=%s result=%s%s\n", *prop, rp.Path, strconv.Quote(o.Name), o.Result, suffix)
		exit = 1
	}
	// canaries: known findings that no longer fail
	for _, k := range known {
		if k.Property != *prop || k.Status != "known" {
			continue
		}
		hit := false
		for _, h := range knownHit {
			if obligMatches(k.Obligation, h) {
				hit = true
			}
		}
		if !hit {
			fmt.Printf("NOTE: known finding no longer reported: %s\n", k.Obligation)
		}
	}
	engineErr := ""
	if len(unsupported) > 0 {
		engineErr = "unsupported: " + strings.Join(unsupported, "; ")
	}
	if len(unbound) > 0 {
		engineErr += " UNBOUND contract: " + strings.Join(unbound, "; ")
	}
	if len(vacuous) > 0 && exit == 0 {
		var ns []string
		for _, o := range vacuous {
			ns = append(ns, o.Name)
		}
		engineErr += " vacuous (cover unsat): " + strings.Join(ns, "; ")
	}
	if total < pc.MinObligs && exit == 0 {
		engineErr += fmt.Sprintf(" obligation count %d below the recorded minimum %d", total, pc.MinObligs)
	}
	for _, u := range units {
		for _, o := range u.Obligs {
			if o.Result == "disagree" {
				engineErr += " solver disagreement on " + o.Name
			}
		}
	}
	if engineErr != "" && exit == 0 {
		fmt.Printf("ENGINE-ERROR property=%s %s\n", *prop, strings.TrimSpace(engineErr))
		exit = 2
	}
	if *verbose {
		for _, u := range units {
			for _, o := range u.Obligs {
				if !selected(o, puOf[u], *prop) {
					continue
				}
				fmt.Printf("%-8s %-10s %6dms %s\n", o.Result, o.Solver, o.TimeMs, o.Name)
			}
		}
	}
	// evidence
	if *evidence {
		var noteList, trustedList, inlinedList []string
		for n := range notes {
			noteList = append(noteList, n)
		}
		for n := range trusted {
			trustedList = append(trustedList, n)
		}
		for n := range inlined {
			inlinedList = append(inlinedList, n)
		}
		sort.Strings(noteList)
		sort.Strings(trustedList)
		sort.Strings(inlinedList)
		tb := []string{
			"go/packages + go/types + go/ssa (x/tools v0.29.0): front end and lowering of the real source",
			"kcpverif VC generator (this engine): symbolic execution, heap model, simplifier, SMT printer",
			"SMT solvers z3 5.1.0 (z3-new), cvc5 1.0.3, z3 4.8.12",
		}
		for _, t := range trustedList {
			tb = append(tb, "trusted contract (assumed, body not verified): "+t)
		}
		assumptions := append([]string{}, pc.Assumptions...)
		assumptions = append(assumptions,
			"64-bit int/uint64 arithmetic treated as mathematical (no-overflow assumed); all narrower integer types wrap explicitly",
			"sequential semantics: each function verified as if running alone between lock operations; time and channel contents unconstrained",
			"termination not proved")
		assumptions = append(assumptions, noteList...)
		bs := map[string]map[string]any{}
		stats.mu.Lock()
		for k, v := range stats.Count {
			bs[k] = map[string]any{"queries": v, "cpu_ms": stats.CPUms[k]}
		}
		cached := stats.Cached
		stats.mu.Unlock()
		ev := map[string]any{
			"property_id": *prop,
			"tier":        *tier,
			"seed":        seed,
			"level":       evidenceLevel(pc),
			"coverage": map[string]any{
				"obligations":              total,
				"discharged":               discharged,
				"checker_cmd":              fmt.Sprintf("/verif/bin/kcpverif check -prop %s -tier %s (obligations generated from %s by go/ssa symbolic execution, discharged by z3-new/cvc5/z3)", *prop, *tier, *repo),
				"trusted_base":             tb,
				"functions_under_contract": fnames,
				"functions_inlined":        inlinedList,
				"unsupported":              unsupported,
				"by_solver":                bs,
				"cache_hits":               cached,
				"slowest":                  slowest,
				"samples":                  samples,
				"covers":                   map[string]int{"run": covers, "reachable_or_unknown": coversSat},
				"known_findings":           knownHit,
				"bounded":                  pc.Bounded,
				"bounded_runs":             boundedRuns,
				"assumed_unproved":         capList(assumedUnproved, 40),
				"unselected_not_attempted": notAttempted,
				"instances":                cfbInstancesInfo(cfbRes, *tier),
				"explanation":              pc.Explanation,
				"arith":                    "arith int: mathematical Int with explicit mod 2^w wrap for 8/16/32-bit types",
				"timeouts_ms":              map[string]int{"fast": cfg.QuickMs, "full": cfg.FullMs},
				"source_tree":              sourceTree(*repo),
			},
			"assumptions": assumptions,
			"wall_s":      time.Since(t0).Seconds(),
			"violations":  violations,
		}
		os.MkdirAll(filepath.Join(*vdir, "evidence"), 0o755)
		b, _ := json.MarshalIndent(ev, "", " ")
		os.WriteFile(filepath.Join(*vdir, "evidence", *prop+".json"), b, 0o644)
	}
	fmt.Printf("property=%s tier=%s obligations=%d discharged=%d known=%d violations=%d wall=%.1fs\n",
		*prop, *tier, total, discharged, len(knownHit), violations, time.Since(t0).Seconds())
	os.Exit(exit)
}

func evidenceLevel(pc *PropCfg) string {
	if pc.Level != "" {
		return pc.Level
	}
	return "proof"
}

// capList: at most n entries plus a count of the rest.
func capList(l []string, n int) []string {
	if len(l) <= n {
		return l
	}
	return append(append([]string{}, l[:n]...), fmt.Sprintf("... and %d more", len(l)-n))
}

func isLocalKey(env *Env, k string) bool {
	// "Type.method" where Type is declared in the package
	i := strings.Index(k, ".")
	if i < 0 {
		return true
	}
	tn := k[:i]
	if strings.Contains(tn, "/") {
		return false
	}
	obj := env.pkg.Types.Scope().Lookup(tn)
	if obj == nil {
		return false
	}
	if _, isIface := obj.Type().Underlying().(*types.Interface); isIface {
		return false
	}
	return true
}

func obligMatches(pattern, name string) bool {
	if strings.HasSuffix(pattern, "*") {
		return strings.HasPrefix(name, strings.TrimSuffix(pattern, "*"))
	}
	return pattern == name
}

type replayInfo struct {
	Path       string
	Reproduced bool
}

func writeReplay(vdir, prop string, o *Oblig, env *Env, repo string, u *Unit) replayInfo {
	path := filepath.Join(vdir, "replays", prop, safeName(o.Name)+".json")
	rr := replayResult{Why: "no replay driver for this kind of obligation; the solver's output is attached"}
	if o.Fn == "cfb" {
		if src, ok := cfbReplayTest(o.Name); ok {
			rr = runReplayTest(repo, src)
		}
	}
	if safetyKinds[o.Kind] && o.Result != "unsat" && u != nil {
		if src, ok := modelReplayTest(env, u, o); ok {
			rr = runReplayTest(repo, src)
		}
	}
	if o.Result != "unsat" && u != nil && strings.HasPrefix(o.Fn, "RingBuffer.") {
		if src, ok := ringReplayTest(env, u, o); ok {
			rr = runReplayTest(repo, src)
		}
	}
	if !rr.Attempted && o.Result != "unsat" && u != nil {
		// generic driver: scalar parameters, receiver built from the model's scalar fields
		if src, ok := flatReplayTest(env, u, o); ok {
			rr = runReplayTest(repo, src)
		}
	}
	if o.Kind == "bounded" {
		src, _ := os.ReadFile(filepath.Join(vdir, "bounded", strings.TrimPrefix(o.Name, "bounded:")))
		rr = replayResult{Attempted: true, Reproduced: true, Test: string(src), Extra: []string{"-run", "^TestVerifBounded$", "-v"}, Output: o.Output,
			Command: "go test -overlay <overlay> -vet=off -count=1 -run ^TestVerifBounded$ -v .  (the bounded test run on the real code)"}
	}
	if o.Kind == "pool" {
		extraOverlay = map[string]string{"bufferpool.go": poolSanitizerSrc}
		rr = runReplayTest(repo, strings.ReplaceAll(poolReplayTest, "%%", "%"))
		extraOverlay = nil
	}
	if o.Kind == "kind" {
		rr = runReplayTest(repo, fmt.Sprintf(wrapReplayTest))
	}
	if o.Kind == "guard" || (prop == "C14" && o.Kind == "precondition") {
		if src, marker, ok := raceReplayTest(o.Name); ok {
			rr = runReplayTest(repo, src, "-race")
			rr.Marker = marker
			// reproduced only if the race detector's report involves the function of the obligation
			rr.Reproduced = rr.Attempted && strings.Contains(rr.full, "DATA RACE") && strings.Contains(rr.full, marker)
			if rr.Reproduced {
				rr.Why = ""
			} else if rr.Attempted {
				rr.Why = "the race detector reported no race involving " + marker + " in this run (races are schedule dependent)"
			}
		}
	}
	verdict := "no-failing-input-found"
	if rr.Reproduced {
		verdict = "reproduced on the real code"
	}
	rec := map[string]any{
		"property":      prop,
		"obligation":    o.Name,
		"kind":          o.Kind,
		"function":      o.Fn,
		"source_pos":    o.Pos,
		"solver":        o.Solver,
		"result":        o.Result,
		"solver_output": o.Output,
		"replay":        rr,
		"verdict":       verdict,
	}
	b, _ := json.MarshalIndent(rec, "", " ")
	os.WriteFile(path, b, 0o644)
	return replayInfo{Path: path, Reproduced: rr.Reproduced}
}

func cfbInstancesInfo(r *cfbShardResult, tier string) any {
	if r == nil {
		return nil
	}
	dom := "quick: stream/xor/none ciphers at lengths 0..64, 100, 1000, 1499, 1500 in both modes; every length 0..1500 for encrypt16/decrypt16 in place (the session's configuration); for the other combinations every length whose 8-block group count is 0, 1 or the maximum (all leftover-block counts and all tail lengths)"
	if tier == "thorough" {
		dom = "every length 0..1500 x {encrypt16, decrypt16, encrypt8, decrypt8, salsa20/simpleXOR/none Encrypt and Decrypt} x {in place, out of place}"
	}
	return map[string]any{"domain": dom, "instances": r.Cases, "obligations_closed_by_simplifier": r.Trivial, "obligations_sent_to_solvers": r.Solver}
}

// runCFBWorkers splits the instance list over worker processes (term tables are per process).
func runCFBWorkers(repo, tier string) *cfbShardResult {
	n := 16
	type out struct {
		r   *cfbShardResult
		err string
	}
	ch := make(chan out, n)
	exe, _ := os.Executable()
	for i := 0; i < n; i++ {
		go func(i int) {
			cmd := exec.Command(exe, "cfbworker", "-repo", repo, "-tier", tier, "-shard", strconv.Itoa(i), "-of", strconv.Itoa(n))
			b, err := cmd.Output()
			if err != nil {
				ch <- out{nil, fmt.Sprintf("worker %d: %v", i, err)}
				return
			}
			var r cfbShardResult
			if err := json.Unmarshal(b, &r); err != nil {
				ch <- out{nil, fmt.Sprintf("worker %d: bad output", i)}
				return
			}
			ch <- out{&r, ""}
		}(i)
	}
	total := &cfbShardResult{}
	for i := 0; i < n; i++ {
		o := <-ch
		if o.r == nil {
			total.Unsup = append(total.Unsup, o.err)
			continue
		}
		total.Cases += o.r.Cases
		total.Trivial += o.r.Trivial
		total.Solver += o.r.Solver
		total.Discharged += o.r.Discharged
		total.Failed = append(total.Failed, o.r.Failed...)
		total.Unsup = append(total.Unsup, o.r.Unsup...)
		if len(total.Sample) < 3 {
			total.Sample = append(total.Sample, o.r.Sample...)
		}
	}
	return total
}

// sourceTree records which tree the obligations were generated from: the commit and every file
// that differs from it (so evidence produced while a change was applied says so).
func sourceTree(repo string) map[string]any {
	out := map[string]any{"dir": repo}
	if b, err := exec.Command("git", "-C", repo, "rev-parse", "HEAD").Output(); err == nil {
		out["head"] = strings.TrimSpace(string(b))
	}
	if b, err := exec.Command("git", "-C", repo, "status", "--porcelain").Output(); err == nil {
		mod := []string{}
		for _, l := range strings.Split(strings.TrimSpace(string(b)), "\n") {
			if l != "" {
				mod = append(mod, l)
			}
		}
		out["differs_from_head"] = mod
	}
	return out
}
