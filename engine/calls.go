package main

// Calls: contracts, inlining, builtins, iterators, callbacks, channels.

import (
	"fmt"
	"go/ast"
	"go/constant"
	"go/token"
	"go/types"
	"strings"

	"golang.org/x/tools/go/ssa"
)

const maxInlineDepth = 8

// under runs f on a copy of st restricted to cond and merges the result back into st.
func (x *Exec) under(st *State, cond *Term, f func(sub *State)) {
	if mkAnd(st.pc, cond) == tFalse {
		return
	}
	if cond == tTrue {
		f(st)
		return
	}
	run := st.clone()
	run.pc = mkAnd(st.pc, cond)
	f(run)
	skip := st.clone()
	skip.pc = mkAnd(st.pc, mkNot(cond))
	m := x.mergeStates([]*State{run, skip})
	*st = *m
}

func (x *Exec) execCall(fr *Frame, st *State, cc *ssa.CallCommon, in ssa.Instruction, rt types.Type) Val {
	pos := in.Pos()
	if cc.IsInvoke() {
		return x.execInvoke(fr, st, cc, in, rt)
	}
	var args []Val
	for _, a := range cc.Args {
		args = append(args, x.val(fr, a))
	}
	switch v := cc.Value.(type) {
	case *ssa.Builtin:
		return x.execBuiltin(fr, st, v.Name(), cc, args, in, rt)
	case *ssa.Function:
		return x.callFunc(fr, st, v, nil, args, in, rt)
	case *ssa.MakeClosure:
		cv := x.val(fr, v).(*ClosureVal)
		return x.callFunc(fr, st, cv.Fn, cv.Bindings, args, in, rt)
	}
	fv := x.val(fr, cc.Value)
	switch c := fv.(type) {
	case *ClosureVal:
		return x.callFunc(fr, st, c.Fn, c.Bindings, args, in, rt)
	case *Term:
		return x.callDynamic(fr, st, cc, c, args, in, rt, pos)
	case *PtrVal:
		if c.Base == PNil {
			x.assert(st, "nil", "call of nil function "+x.src(in), tFalse, pos, nil)
			return x.freshResult(st, rt)
		}
	}
	x.unsup("call of %T value", fv)
	return nil
}

func (x *Exec) freshResult(st *State, rt types.Type) Val {
	if rt == nil {
		return nil
	}
	if tup, ok := rt.(*types.Tuple); ok && tup.Len() == 0 {
		return nil
	}
	return x.freshOf(st, "ret", rt)
}

// havocUnknown: an unmodelled call may change anything.
func (x *Exec) havocUnknown(st *State, what string) {
	x.note("unmodelled call (heap havocked): " + what)
	if x.writes != nil {
		for _, n := range heapNames {
			*x.writes = append(*x.writes, writeRec{n, nil})
		}
	}
	alloc := x.alloc(st)
	st.havocExcept(func(n string) bool { return n != "$alloc" && x.keepOnHavoc(n) })
	x.assume(st, mkLe(alloc, x.alloc(st)))
	for _, ax := range x.env.con.Axioms {
		ce := &cenv{x: x, st: st, old: st, vars: map[string]cvar{}}
		x.assume(st, ce.evalBool(ax.Expr))
	}
}

func (x *Exec) callFunc(fr *Frame, st *State, fn *ssa.Function, bindings []Val, args []Val, in ssa.Instruction, rt types.Type) Val {
	env := x.env
	key := env.keyOf(fn)
	con := env.con.Funcs[key]
	inPkg := fn.Pkg == env.spkg || (fn.Origin() != nil && fn.Origin().Pkg == env.spkg) || (fn.Parent() != nil)
	if x.guardMode && inPkg {
		recvOwned := false
		if r := fn.Signature.Recv(); r != nil {
			rt := r.Type()
			if p := derefType(rt); p != nil {
				rt = p
			}
			recvOwned = env.con.guardSpec().Owned[env.te.namedKey(rt)]
		}
		// calls that are inlined are checked access by access inside the body
		inl := con == nil && len(fn.Blocks) > 0 || con != nil && con.Flags["inline"] != ""
		if !inl {
			x.guardCall(st, key, args, recvOwned, in.Pos())
		}
	}
	if con != nil {
		con.used = true
		if it := con.Flags["iterator"]; it != "" && x.unit.Fn != fn && (fn.Origin() == nil || x.unit.Fn != fn.Origin()) {
			if len(args) == 2 {
				if y, ok := args[1].(*ClosureVal); ok {
					x.execIterator(fr, st, con, fn, args[0], y, in)
					return nil
				}
			}
			x.unsup("iterator %s called with a non-literal yield function", key)
		}
		if con.Flags["inline"] == "" {
			return x.applyContract(fr, st, con, fn, key, args, in, rt)
		}
	}
	if lib := libTable[fullName(fn)]; lib != nil {
		return lib(x, fr, st, fn, args, in, rt)
	}
	if strings.HasSuffix(fn.Name(), "$bound") && len(fn.Blocks) == 0 {
		x.unsup("bound method without body")
	}
	if len(fn.Blocks) > 0 && (inPkg || fn.Synthetic != "") {
		if x.depth >= maxInlineDepth || x.onStack(fr, fn) {
			x.havocUnknown(st, key+" (inline depth/recursion)")
			return x.freshResult(st, rt)
		}
		x.unit.Inlined[key] = true
		return x.inline(fr, st, fn, bindings, args, in)
	}
	x.havocUnknown(st, fullName(fn))
	return x.freshResult(st, rt)
}

func (x *Exec) onStack(fr *Frame, fn *ssa.Function) bool {
	for f := fr; f != nil; f = f.parent {
		if f.fn == fn {
			return true
		}
	}
	return false
}

// inline executes fn's body in a sub-frame on st and returns its (merged) result.
func (x *Exec) inline(fr *Frame, st *State, fn *ssa.Function, bindings []Val, args []Val, in ssa.Instruction) Val {
	sub := &Frame{fn: fn, key: x.env.keyOf(fn), cells: map[*ssa.Alloc]*Cell{}, regs: map[ssa.Value]Val{}, params: args,
		freeVars: bindings, parent: fr, old: fr.old, pcells: map[int]*Cell{}}
	x.depth++
	defer func() { x.depth-- }()
	x.runBody(sub, st)
	if len(sub.rets) == 0 {
		st.pc = tFalse
		return &BadVal{"function never returns"}
	}
	states := make([]*State, len(sub.rets))
	pcs := make([]*Term, len(sub.rets))
	for i, r := range sub.rets {
		states[i] = r.st
		pcs[i] = r.st.pc
	}
	var rv Val
	if len(sub.rets) == 1 {
		rv = sub.rets[0].val
	} else {
		_, rem := factorPCs(pcs)
		// drop infeasible
		for i, r := range sub.rets {
			if r.st.pc == tFalse {
				continue
			}
			if rv == nil {
				rv = r.val
				continue
			}
			if r.val != nil {
				rv = x.mergeVal(rem[i], r.val, rv)
			}
		}
	}
	m := x.mergeStates(states)
	*st = *m
	return rv
}

// ---- contract application at a call site ----

func (x *Exec) bindParams(fn *ssa.Function, args []Val) map[string]cvar {
	vars := map[string]cvar{}
	sig := fn.Signature
	if o := fn.Origin(); o != nil {
		// use the instantiated signature for types but origin's names (identical names)
	}
	k := 0
	if sig.Recv() != nil {
		if k < len(args) {
			vars[sig.Recv().Name()] = cvar{v: args[k], t: sig.Recv().Type()}
		}
		k++
	}
	for i := 0; i < sig.Params().Len(); i++ {
		p := sig.Params().At(i)
		if k < len(args) {
			vars[p.Name()] = cvar{v: args[k], t: p.Type()}
		}
		k++
	}
	return vars
}

func (x *Exec) bindResult(vars map[string]cvar, fn *ssa.Function, rv Val) {
	res := fn.Signature.Results()
	switch res.Len() {
	case 0:
	case 1:
		vars["result"] = cvar{v: rv, t: res.At(0).Type()}
		if n := res.At(0).Name(); n != "" && n != "_" {
			vars[n] = cvar{v: rv, t: res.At(0).Type()}
		}
	default:
		tv, ok := rv.(*TupleVal)
		if !ok {
			return
		}
		vars["result"] = cvar{v: rv, t: res}
		for i := 0; i < res.Len(); i++ {
			vars[fmt.Sprintf("result%d", i)] = cvar{v: tv.Elems[i], t: res.At(i).Type()}
			if n := res.At(i).Name(); n != "" && n != "_" {
				vars[n] = cvar{v: tv.Elems[i], t: res.At(i).Type()}
			}
		}
	}
}

// callSiteAsserts: assertions written in the caller's contract for calls of key, evaluated in
// the caller's frame (its locals are visible) immediately before the call.
func (x *Exec) callSiteAsserts(fr *Frame, st *State, key string, in ssa.Instruction) {
	x.callSiteAssertsArgs(fr, st, key, in, nil)
}

// callSiteAssertsArgs: as callSiteAsserts, with the callee's parameters visible by name (for
// interface methods, where different call sites pass different expressions).
func (x *Exec) callSiteAssertsArgs(fr *Frame, st *State, key string, in ssa.Instruction, params map[string]cvar) {
	if fr == nil || x.dry > 0 {
		return
	}
	root := fr
	for root.parent != nil && rootFn(root.fn) != root.fn {
		root = root.parent
	}
	ccon := x.env.con.Funcs[x.env.keyOf(rootFn(fr.fn))]
	if ccon == nil {
		return
	}
	for _, cl := range ccon.CallSites[key] {
		x.assertClause(st, "callsite", "before "+key+": ", x.clauseEnv(fr, st, params), cl, in.Pos())
	}
}

func (x *Exec) applyContract(fr *Frame, st *State, con *FuncContract, fn *ssa.Function, key string, args []Val, in ssa.Instruction, rt types.Type) Val {
	pos := in.Pos()
	vars := x.bindParams(fn, args)
	{
		// callsite clauses of the caller: the callee's parameters are visible by name unless the
		// caller has a variable of that name
		extra := map[string]cvar{}
		if fr != nil {
			cv := x.frameVars(fr)
			for n, v := range vars {
				if _, clash := cv[n]; !clash {
					extra[n] = v
				}
				extra["arg_"+n] = v // always available, whatever the caller's own names
			}
		}
		x.callSiteAssertsArgs(fr, st, key, in, extra)
	}
	// implicit: receiver non-nil
	if fn.Signature.Recv() != nil && len(args) > 0 {
		if p, ok := args[0].(*PtrVal); ok && p.Nilc != tFalse {
			x.assert(st, "nil", "receiver of "+x.src(in), mkNot(p.Nilc), pos, nil)
		}
	}
	ce := &cenv{x: x, st: st, old: st, vars: vars, fr: nil}
	for _, cl := range con.Requires {
		x.assertClause(st, "precondition", key+" requires ", ce, cl, pos)
	}
	if con.Flags["panics"] != "" {
		x.assert(st, "panic", "call of panicking function "+key, tFalse, pos, nil)
	}
	if con.Flags["trusted"] != "" {
		x.unit.Trusted[key] = true
	}
	pre := st.clone()
	if con.Flags["counted"] != "" {
		x.countCall(st, key, args)
	}
	// havoc modifies
	if con.Flags["pure"] == "" {
		mods := x.evalModifies(&cenv{x: x, st: pre, old: pre, vars: vars}, con.Modifies)
		x.havocFor = key
		for _, m := range mods {
			x.havocEntry(st, m, pos)
		}
		x.havocFor = ""
		if con.Flags["allocates"] != "" || true {
			a := x.alloc(st)
			na := fresh("alloc", sortInt)
			x.assume(st, mkLe(a, na))
			st.setH("$alloc", na)
			if x.writes != nil {
				*x.writes = append(*x.writes, writeRec{"$alloc", nil})
			}
		}
	}
	rv := x.freshResult(st, rt)
	if x.guardMode && x.env.con.Ctors[key] {
		// a constructor's result is a new object, not yet visible to other goroutines
		if x.freshRefs == nil {
			x.freshRefs = map[*Term]bool{}
		}
		switch v := rv.(type) {
		case *PtrVal:
			if v.Base == PObj {
				x.freshRefs[v.Ref] = true
			}
		case *Term:
			x.freshRefs[v] = true
		}
	}
	if rt == nil && fn.Signature.Results().Len() > 0 {
		// deferred call / go: result unused
		if fn.Signature.Results().Len() == 1 {
			rv = x.freshOf(st, "ret", fn.Signature.Results().At(0).Type())
		} else {
			rv = x.freshOf(st, "ret", fn.Signature.Results())
		}
	}
	x.bindResult(vars, fn, rv)
	post := &cenv{x: x, st: st, old: pre, vars: vars, fr: nil}
	for _, cl := range con.Ensures {
		x.assumeEnsures(st, post, cl, key)
	}
	return rv
}

// assumeEnsures assumes a callee postcondition; clauses that mention locals of the callee
// (meaningful only inside its body) are skipped at call sites.
func (x *Exec) assumeEnsures(st *State, post *cenv, cl *Clause, key string) {
	defer func() {
		if r := recover(); r != nil {
			if us, ok := r.(unsupported); ok && strings.Contains(us.msg, "unknown identifier") {
				x.note("postcondition of " + key + " mentioning its locals is not used at call sites: " + cl.Src)
				return
			}
			panic(r)
		}
	}()
	x.assume(st, post.evalBool(cl.Expr))
}

// countCall: ghost counter of calls of a function, per receiver/first-argument object.
func (x *Exec) countCall(st *State, key string, args []Val) {
	ref := mkInt(0)
	if len(args) > 0 {
		if p, ok := args[0].(*PtrVal); ok && p.Base == PObj && len(p.Path) == 0 {
			ref = mkIte(p.Nilc, mkInt(0), p.Ref)
		}
	}
	hn := "ghost:calls:" + key
	h := st.H(hn, arraySort(sortInt, sortInt))
	st.setH(hn, mkStore(h, ref, mkAdd(mkSelect(h, ref), mkInt(1))))
}

// ---- modifies ----

type modEntry struct {
	heap   string // exact heap name, or prefix "F:Type." for whole objects
	prefix bool
	ref    *Term // nil for globals / everything
	cell   *Cell // copy-in cell or local
	ptr    *PtrVal
	all    bool
	whole  bool // prefix entry covering every object of the type
	typ    types.Type
}

func (x *Exec) evalModifies(ce *cenv, ms []*CExpr) []modEntry {
	var out []modEntry
	te := x.env.te
	for _, m := range ms {
		if m.Kind == "id" && m.Name == "everything" {
			out = append(out, modEntry{all: true})
			continue
		}
		if m.Kind == "id" && m.Name == "allbytes" {
			bt := types.Universe.Lookup("byte").Type()
			hn, so := te.elemHeap(bt)
			if _, ok := heapSorts[hn]; !ok {
				heapSorts[hn] = so
				heapNames = append(heapNames, hn)
			}
			out = append(out, modEntry{heap: hn, typ: bt})
			continue
		}
		if m.Kind == "slice" {
			// backing array of a slice
			v := ce.eval(m.X)
			st, ok := types.Unalias(v.t).Underlying().(*types.Slice)
			if !ok {
				x.unsup("modifies %s: not a slice", m)
			}
			s := x.toTerm(v.v, v.t)
			hn, _ := te.elemHeap(st.Elem())
			te.sortOf(st.Elem())
			_, so := te.elemHeap(st.Elem())
			if _, ok := heapSorts[hn]; !ok {
				heapSorts[hn] = so
				heapNames = append(heapNames, hn)
			}
			out = append(out, modEntry{heap: hn, ref: sliceRef(s), typ: st.Elem()})
			continue
		}
		if m.Kind == "call" && (m.Name == "allof" || m.Name == "allelems" || m.Name == "allmaps") {
			// coarse frames: every object of a struct type / every array of an element type /
			// every map owned by a field
			arg := m.Args[0].String()
			switch m.Name {
			case "allof":
				obj := x.env.pkg.Types.Scope().Lookup(arg)
				if obj == nil || structOf(obj.Type()) == nil {
					x.unsup("modifies allof(%s): unknown struct type", arg)
				}
				out = append(out, modEntry{heap: "F:" + te.typeStr(obj.Type()) + ".", prefix: true, typ: obj.Type(), whole: true})
			case "allelems":
				var et types.Type
				if arg == "bytes" {
					et = types.NewSlice(types.Universe.Lookup("byte").Type())
				} else if arg == "bool" {
					et = types.Typ[types.Bool]
				} else {
					obj := x.env.pkg.Types.Scope().Lookup(arg)
					if obj == nil {
						x.unsup("modifies allelems(%s): unknown type", arg)
					}
					et = obj.Type()
				}
				hn, so := te.elemHeap(et)
				if _, ok := heapSorts[hn]; !ok {
					heapSorts[hn] = so
					heapNames = append(heapNames, hn)
				}
				out = append(out, modEntry{heap: hn, typ: et})
			case "allmaps":
				// arg is Struct.field
				k := strings.Index(arg, ".")
				obj := x.env.pkg.Types.Scope().Lookup(arg[:k])
				if k < 0 || obj == nil || structOf(obj.Type()) == nil {
					x.unsup("modifies allmaps(%s)", arg)
				}
				sty := structOf(obj.Type())
				for i := 0; i < sty.NumFields(); i++ {
					if sty.Field(i).Name() == arg[k+1:] {
						mt := sty.Field(i).Type().Underlying().(*types.Map)
						dn, ds, vn, vs := te.mapHeaps(mt, arg)
						ln, ls := te.mapLenHeap(mt, arg)
						for _, p := range [][2]any{{dn, ds}, {vn, vs}, {ln, ls}} {
							n := p[0].(string)
							if _, ok := heapSorts[n]; !ok {
								heapSorts[n] = p[1].(*Sort)
								heapNames = append(heapNames, n)
							}
							out = append(out, modEntry{heap: n})
						}
					}
				}
			}
			continue
		}
		if m.Kind == "call" && m.Name == "all" {
			v := ce.eval(m.Args[0])
			pt := derefType(v.t)
			if pt == nil || structOf(pt) == nil {
				x.unsup("modifies all(%s): not a pointer to a struct", m.Args[0])
			}
			p := x.asPtr(v.v, v.t)
			if p.Base != PObj || len(p.Path) != 0 {
				x.unsup("modifies all(%s): not an object pointer", m.Args[0])
			}
			out = append(out, modEntry{heap: "F:" + te.typeStr(pt) + ".", prefix: true, ref: p.Ref, typ: pt})
			continue
		}
		if m.Kind == "call" && m.Name == "mapof" {
			v := ce.eval(m.Args[0])
			mt := types.Unalias(v.t).Underlying().(*types.Map)
			reg := ce.region(v, m.Args[0])
			dn, ds, vn, vs := te.mapHeaps(mt, reg)
			ln, ls := te.mapLenHeap(mt, reg)
			for _, p := range [][2]any{{dn, ds}, {vn, vs}, {ln, ls}} {
				n := p[0].(string)
				if _, ok := heapSorts[n]; !ok {
					heapSorts[n] = p[1].(*Sort)
					heapNames = append(heapNames, n)
				}
				out = append(out, modEntry{heap: n, ref: x.toTerm(v.v, v.t)})
			}
			continue
		}
		// field of an object: x.f ; or whole object x ; or global
		if m.Kind == "field" {
			base := ce.eval(m.X)
			if pt := derefType(base.t); pt != nil && structOf(pt) != nil {
				p := x.asPtr(base.v, base.t)
				if p.Base == PObj && len(p.Path) == 0 {
					sty := structOf(pt)
					for i := 0; i < sty.NumFields(); i++ {
						if sty.Field(i).Name() == m.Name {
							hn, so := te.fieldHeap(pt, i)
							if _, ok := heapSorts[hn]; !ok {
								heapSorts[hn] = so
								heapNames = append(heapNames, hn)
							}
							out = append(out, modEntry{heap: hn, ref: p.Ref})
						}
					}
					continue
				}
			}
		}
		v := ce.eval(m)
		if g, ok := v.v.(*PtrVal); ok && g.Base == PGlobal {
			out = append(out, modEntry{heap: "G:" + g.Glob.Pkg.Pkg.Name() + "." + g.Glob.Name(), typ: g.BTyp})
			continue
		}
		pt := derefType(v.t)
		if pt == nil {
			x.unsup("modifies %s: not a pointer, slice range or field", m)
		}
		p := x.asPtr(v.v, v.t)
		switch {
		case p.Base == PObj && len(p.Path) == 0:
			out = append(out, modEntry{heap: "F:" + te.typeStr(pt) + ".", prefix: true, ref: p.Ref, typ: pt})
		default:
			out = append(out, modEntry{ptr: p, typ: pt})
		}
	}
	return out
}

// havocEntry forgets the contents described by a modifies entry.
func (x *Exec) havocEntry(st *State, m modEntry, pos token.Pos) {
	te := x.env.te
	switch {
	case m.all:
		x.havocUnknown(st, "modifies everything")
	case m.ptr != nil:
		f := fresh("havoc", te.sortOf(m.typ))
		x.assumeTyped(st, m.typ, f)
		if m.ptr.Base == PLocal && len(m.ptr.Path) == 0 {
			st.cells[m.ptr.Cell] = f
			if x.cellWrites != nil {
				x.cellWrites[m.ptr.Cell] = true
			}
			return
		}
		x.storeTerm(st, m.ptr, f, pos)
	case m.prefix:
		sty := structOf(m.typ)
		for i := 0; i < sty.NumFields(); i++ {
			hn, so := te.fieldHeap(m.typ, i)
			// fields declared immutable are written by constructors only (checked), so a
			// callee that is not a constructor cannot change them even under all(x)
			if x.env.con.Immutable[te.namedKey(m.typ)+"."+sty.Field(i).Name()] && x.havocFor != "" && !x.env.con.Ctors[x.havocFor] {
				continue
			}
			if m.whole {
				x.checkWrite(st, hn, nil, pos)
				st.setH(hn, fresh("havoc."+sty.Field(i).Name(), so))
				continue
			}
			x.checkWrite(st, hn, m.ref, pos)
			st.setH(hn, mkStore(st.H(hn, so), m.ref, fresh("havoc."+sty.Field(i).Name(), so.Elem)))
		}
	case m.ref == nil:
		x.checkWrite(st, m.heap, nil, pos)
		so := heapSorts[m.heap]
		if so == nil {
			so = te.sortOf(m.typ)
		}
		st.setH(m.heap, fresh("havoc."+m.heap, so))
	default:
		so := heapSorts[m.heap]
		x.checkWrite(st, m.heap, m.ref, pos)
		st.setH(m.heap, mkStore(st.H(m.heap, so), m.ref, fresh("havoc."+m.heap, so.Elem)))
	}
}

// writeAllowed: is a write to (heap, ref) inside the unit's declared frame?
func (x *Exec) writeAllowed(st *State, heap string, ref *Term) *Term {
	var alts []*Term
	if ref != nil {
		// fresh objects (allocated after entry) are always writable
		alts = append(alts, mkLt(mkVar("$alloc@0", sortInt), ref))
	}
	for _, m := range x.modAllowed {
		switch {
		case m.all:
			return tTrue
		case m.ptr != nil:
			continue
		case m.prefix:
			if strings.HasPrefix(heap, m.heap) && m.whole {
				return tTrue
			}
			if strings.HasPrefix(heap, m.heap) && ref != nil {
				alts = append(alts, mkEq(ref, m.ref))
			}
		case m.heap == heap:
			if m.ref == nil || ref == nil {
				if m.ref == nil {
					return tTrue
				}
				continue
			}
			alts = append(alts, mkEq(ref, m.ref))
		}
	}
	return mkOr(alts...)
}

// ---- dynamic calls: callbacks ----

func (x *Exec) callDynamic(fr *Frame, st *State, cc *ssa.CallCommon, fv *Term, args []Val, in ssa.Instruction, rt types.Type, pos token.Pos) Val {
	// callback loaded from a struct field?
	if key := x.callbackKey(cc.Value); key != "" {
		if con := x.env.con.Callbacks[key]; con != nil {
			con.used = true
			sig := cc.Value.Type().Underlying().(*types.Signature)
			vars := map[string]cvar{}
			for i := 0; i < sig.Params().Len() && i < len(args); i++ {
				n := sig.Params().At(i).Name()
				if n == "" {
					n = fmt.Sprintf("arg%d", i)
				}
				vars[n] = cvar{v: args[i], t: sig.Params().At(i).Type()}
			}
			if fa := x.callbackRecv(fr, cc.Value); fa != nil {
				for n, v := range fa {
					vars[n] = v
				}
			}
			x.assert(st, "nil", "call of nil callback "+key, mkNot(mkEq(fv, mkInt(0))), pos, nil)
			ce := &cenv{x: x, st: st, old: fr.old, vars: vars}
			for _, cl := range con.Requires {
				x.assertClause(st, "callback", key+" requires ", ce, cl, pos)
			}
			x.note("callback " + key + " assumed not to modify state visible to the verified function")
			pre := st.clone()
			mods := x.evalModifies(&cenv{x: x, st: pre, old: pre, vars: vars}, con.Modifies)
			for _, m := range mods {
				x.havocEntry(st, m, pos)
			}
			return x.freshResult(st, rt)
		}
	}
	if name, ok := x.cbParam(fr, cc.Value); ok {
		return x.callUnknownCallback(fr, st, name, args, in, rt)
	}
	x.assert(st, "nil", "call of nil function "+x.src(in), mkNot(mkEq(fv, mkInt(0))), pos, nil)
	// call-site clauses of the caller for a call through a value of a named function type
	// ("callsite dyn:<TypeName> requires ..."; arguments by parameter name, or arg0, arg1, ...)
	if nt, ok := types.Unalias(cc.Value.Type()).(*types.Named); ok {
		if sig, ok := nt.Underlying().(*types.Signature); ok {
			params := map[string]cvar{}
			for i := 0; i < sig.Params().Len() && i < len(args); i++ {
				n := sig.Params().At(i).Name()
				if n == "" || n == "_" {
					n = fmt.Sprintf("arg%d", i)
				}
				params[n] = cvar{v: args[i], t: sig.Params().At(i).Type()}
				params[fmt.Sprintf("arg%d", i)] = cvar{v: args[i], t: sig.Params().At(i).Type()}
			}
			x.callSiteAssertsArgs(fr, st, "dyn:"+nt.Obj().Name(), in, params)
		}
	}
	x.havocUnknown(st, "dynamic call "+x.src(in))
	return x.freshResult(st, rt)
}

// callbackKey: "KCP.output" if v is a load of that field.
func (x *Exec) callbackKey(v ssa.Value) string {
	u, ok := v.(*ssa.UnOp)
	if !ok || u.Op != token.MUL {
		return ""
	}
	fa, ok := u.X.(*ssa.FieldAddr)
	if !ok {
		return ""
	}
	pt := derefType(fa.X.Type())
	sty := structOf(pt)
	if sty == nil {
		return ""
	}
	return x.env.te.namedKey(pt) + "." + sty.Field(fa.Field).Name()
}

// callbackRecv binds the object holding the callback field under the name of its type's first letter...
// we bind it as "self".
func (x *Exec) callbackRecv(fr *Frame, v ssa.Value) map[string]cvar {
	u, ok := v.(*ssa.UnOp)
	if !ok {
		return nil
	}
	fa, ok := u.X.(*ssa.FieldAddr)
	if !ok {
		return nil
	}
	return map[string]cvar{"self": {v: x.val(fr, fa.X), t: fa.X.Type()}}
}

// cbParam: is v a load of a function-typed parameter of the unit's top function?
func (x *Exec) cbParam(fr *Frame, v ssa.Value) (string, bool) {
	switch u := v.(type) {
	case *ssa.Parameter:
		if _, ok := u.Type().Underlying().(*types.Signature); ok && fr.top {
			return u.Name(), true
		}
	case *ssa.UnOp:
		if a, ok := u.X.(*ssa.Alloc); ok && fr.top {
			// find the store of a parameter into this alloc
			for _, r := range *a.Referrers() {
				if s, ok := r.(*ssa.Store); ok && s.Addr == a {
					if p, ok := s.Val.(*ssa.Parameter); ok {
						if _, isSig := p.Type().Underlying().(*types.Signature); isSig {
							return p.Name(), true
						}
					}
				}
			}
		}
	}
	return "", false
}

// callUnknownCallback models a call of a function-typed parameter: it is logged in the
// ghost trace (cb_n, cb_ref, cb_idx, cb_ret), may mutate the backing array of the element
// it is handed, and returns an arbitrary value.
func (x *Exec) callUnknownCallback(fr *Frame, st *State, name string, args []Val, in ssa.Instruction, rt types.Type) Val {
	arrII := arraySort(sortInt, sortInt)
	arrIB := arraySort(sortInt, sortBool)
	n := st.H("ghost:cb_n", sortInt)
	ref, idx := mkInt(0), mkInt(0)
	if len(args) == 1 {
		if p, ok := args[0].(*PtrVal); ok && p.Base == PElem && len(p.Path) == 0 {
			ref, idx = p.Ref, p.Idx
			// the callback may mutate any element of that backing array
			hn, so := x.env.te.elemHeap(p.BTyp)
			x.checkWrite(st, hn, p.Ref, in.Pos())
			st.setH(hn, mkStore(st.H(hn, so), p.Ref, fresh("cb.mut", so.Elem)))
		} else {
			x.unsup("callback parameter called with unsupported argument")
		}
	} else if len(args) > 1 {
		x.unsup("callback parameter with %d arguments", len(args))
	}
	st.setH("ghost:cb_ref", mkStore(st.H("ghost:cb_ref", arrII), n, ref))
	st.setH("ghost:cb_idx", mkStore(st.H("ghost:cb_idx", arrII), n, idx))
	var rv Val
	if rt != nil {
		if b, ok := rt.Underlying().(*types.Basic); ok && b.Info()&types.IsBoolean != 0 {
			r := fresh("cb.ret", sortBool)
			st.setH("ghost:cb_ret", mkStore(st.H("ghost:cb_ret", arrIB), n, r))
			rv = r
		} else {
			rv = x.freshResult(st, rt)
		}
	}
	st.setH("ghost:cb_n", mkAdd(n, mkInt(1)))
	x.note("callback parameter " + name + ": modelled as an arbitrary function that may mutate the elements of the array it is handed a pointer into, and nothing else")
	return rv
}

// ---- iterators (range-over-func) ----

func (x *Exec) execIterator(fr *Frame, st *State, con *FuncContract, fn *ssa.Function, recv Val, yield *ClosureVal, in ssa.Instruction) {
	pos := in.Pos()
	node, _ := yield.Fn.Syntax().(*ast.RangeStmt)
	ord := 0
	if node != nil {
		ord = x.env.loopOrdinal(yield.Fn, node)
		pos = node.Pos()
	}
	rootCon := x.env.con.Funcs[x.env.keyOf(rootFn(yield.Fn))]
	var invs []*Clause
	if rootCon != nil {
		rootCon.used = true
		invs = rootCon.LoopInv[ord]
	}
	cntSrc, elSrc := con.Flags["itercount"], con.Flags["iterelem"]
	if cntSrc == "" || elSrc == "" {
		x.unsup("iterator contract of %s lacks itercount/iterelem", con.Key)
	}
	cntE, err := parseCExpr(cntSrc)
	if err != nil {
		x.unsup("itercount: %v", err)
	}
	elE, err := parseCExpr(elSrc)
	if err != nil {
		x.unsup("iterelem: %v", err)
	}
	vars := x.bindParams(fn, []Val{recv, nil})
	// implicit: receiver non-nil + requires
	if p, ok := recv.(*PtrVal); ok && p.Nilc != tFalse {
		x.assert(st, "nil", "receiver of "+x.src(in), mkNot(p.Nilc), pos, nil)
	}
	ce0 := &cenv{x: x, st: st, old: st, vars: vars}
	for _, cl := range con.Requires {
		x.assertClause(st, "precondition", con.Key+" requires ", ce0, cl, pos)
	}
	n := x.toTerm(ce0.eval(cntE).v, types.Typ[types.Int])
	entry := st.clone()
	// the jump cell (first binding named jump$k) must be 0 on entry
	invEnv := func(s *State, i *Term) *cenv {
		return x.clauseEnv(fr, s, map[string]cvar{"_i": {v: i, t: types.Typ[types.Int]}, "_n": {v: n, t: types.Typ[types.Int]}})
	}
	evalInv := func(s *State, i *Term, cl *Clause) *Term {
		return x.evalClauseWith(fr, s, cl, map[string]cvar{"_i": {v: i, t: types.Typ[types.Int]}, "_n": {v: n, t: types.Typ[types.Int]}})
	}
	for _, cl := range invs {
		x.assertClause(entry, "loop-entry", fmt.Sprintf("loop %d: ", ord), invEnv(entry, mkInt(0)), cl, pos)
	}
	elemPtr := func(s *State, i *Term) *PtrVal {
		ce := &cenv{x: x, st: s, old: s, vars: map[string]cvar{"_i": {v: i, t: types.Typ[types.Int]}}}
		for k, v := range vars {
			ce.vars[k] = v
		}
		p := ce.addrOf(elE)
		if p == nil {
			x.unsup("iterelem must be an element expression")
		}
		return p
	}
	// cells possibly assigned by the body
	cells := map[*Cell]bool{}
	x.closureStores(yield, cells, map[*ssa.Function]bool{})
	// shape of the container: every field of the receiver object
	shape := func(s *State) []*Term {
		var out []*Term
		if p, ok := recv.(*PtrVal); ok && p.Base == PObj {
			sty := structOf(p.BTyp)
			for k := 0; k < sty.NumFields(); k++ {
				hn, so := x.env.te.fieldHeap(p.BTyp, k)
				out = append(out, mkSelect(s.H(hn, so), p.Ref))
			}
		}
		return out
	}
	shape0 := shape(entry)
	body := func(s *State, i *Term) (cont *Term) {
		ep := elemPtr(s, i)
		rv := x.inline(fr, s, yield.Fn, yield.Bindings, []Val{ep}, in)
		if s.pc == tFalse {
			return tFalse
		}
		return x.toTerm(rv, types.Typ[types.Bool])
	}
	if neverContinues(yield.Fn) {
		// the body always leaves the loop: at most one iteration, from the entry state itself
		first := entry.clone()
		first.pc = mkAnd(entry.pc, mkLt(mkInt(0), n))
		var exits []*State
		if first.pc != tFalse {
			body(first, mkInt(0))
			if first.pc != tFalse {
				exits = append(exits, first)
			}
		}
		none := entry.clone()
		none.pc = mkAnd(entry.pc, mkLe(n, mkInt(0)))
		exits = append(exits, none)
		m := x.mergeStates(exits)
		*st = *m
		return
	}
	plan := x.planHavoc(entry, cells, func(ds *State) {
		i := fresh("dry.i", sortInt)
		body(ds, i)
	})
	tag := fmt.Sprintf("I%d", ord)
	mkHead := func() *State {
		h := entry.clone()
		x.applyHavoc(h, plan, tag)
		sh := shape(h)
		for k := range sh {
			x.assume(h, mkEq(sh[k], shape0[k]))
		}
		return h
	}
	// iteration i
	head := mkHead()
	i := fresh(tag+".i", sortInt)
	x.assume(head, mkAnd(mkLe(mkInt(0), i), mkLt(i, n)))
	for _, cl := range invs {
		x.assume(head, evalInv(head, i, cl))
	}
	x.jumpCellsZero(head, yield, true)
	x.cover(head, fmt.Sprintf("loop %d body reachable under its invariant", ord))
	cont := body(head, i)
	var exits []*State
	if head.pc != tFalse {
		// continue edge
		cs := head.clone()
		cs.pc = mkAnd(head.pc, cont)
		if cs.pc != tFalse && x.dry == 0 {
			sh := shape(cs)
			for k := range sh {
				x.assert(cs, "iterator", "container header unchanged by loop body", mkEq(sh[k], shape0[k]), pos, nil)
			}
			for _, cl := range invs {
				x.assertClause(cs, "loop-preserve", fmt.Sprintf("loop %d: ", ord), invEnv(cs, mkAdd(i, mkInt(1))), cl, pos)
			}
		}
		// break edge
		bs := head
		bs.pc = mkAnd(head.pc, mkNot(cont))
		if bs.pc != tFalse {
			exits = append(exits, bs)
		}
	}
	// exhausted
	done := mkHead()
	for _, cl := range invs {
		x.assume(done, evalInv(done, n, cl))
	}
	x.jumpCellsZero(done, yield, true)
	exits = append(exits, done)
	m := x.mergeStates(exits)
	*st = *m
}

// neverContinues: every return of the yield function returns the constant false.
func neverContinues(fn *ssa.Function) bool {
	n := 0
	for _, b := range fn.Blocks {
		for _, in := range b.Instrs {
			if r, ok := in.(*ssa.Return); ok {
				n++
				if len(r.Results) != 1 {
					return false
				}
				c, ok := r.Results[0].(*ssa.Const)
				if !ok || c.Value == nil || c.Value.Kind() != constant.Bool || constant.BoolVal(c.Value) {
					return false
				}
			}
		}
	}
	return n > 0
}

// jumpCellsZero assumes the go/ssa range-over-func state cell(s) are in the "ready" state.
func (x *Exec) jumpCellsZero(st *State, yield *ClosureVal, assume bool) {
	for k, fv := range yield.Fn.FreeVars {
		if strings.HasPrefix(fv.Name(), "jump$") {
			if p, ok := yield.Bindings[k].(*PtrVal); ok && p.Base == PLocal {
				st.cells[p.Cell] = mkInt(0)
			}
		}
	}
}

// closureStores collects cells that a closure (and closures it creates) may assign.
func (x *Exec) closureStores(cv *ClosureVal, out map[*Cell]bool, seen map[*ssa.Function]bool) {
	if cv.Fn == nil || seen[cv.Fn] {
		return
	}
	seen[cv.Fn] = true
	bindOf := func(fv *ssa.FreeVar) Val {
		for k, v := range cv.Fn.FreeVars {
			if v == fv && k < len(cv.Bindings) {
				return cv.Bindings[k]
			}
		}
		return nil
	}
	var root func(v ssa.Value) *Cell
	root = func(v ssa.Value) *Cell {
		for {
			switch a := v.(type) {
			case *ssa.FreeVar:
				if p, ok := bindOf(a).(*PtrVal); ok && p.Base == PLocal {
					return p.Cell
				}
				return nil
			case *ssa.FieldAddr:
				v = a.X
			case *ssa.IndexAddr:
				if _, isPtr := a.X.Type().Underlying().(*types.Pointer); isPtr {
					v = a.X
				} else {
					return nil
				}
			case *ssa.UnOp:
				// load of a captured pointer variable: the pointee is not a captured cell
				return nil
			default:
				return nil
			}
		}
	}
	for _, b := range cv.Fn.Blocks {
		for _, in := range b.Instrs {
			switch i := in.(type) {
			case *ssa.Store:
				if c := root(i.Addr); c != nil {
					out[c] = true
				}
			case *ssa.MakeClosure:
				sub := &ClosureVal{Fn: i.Fn.(*ssa.Function)}
				for _, bnd := range i.Bindings {
					switch bv := bnd.(type) {
					case *ssa.FreeVar:
						sub.Bindings = append(sub.Bindings, bindOf(bv))
					default:
						sub.Bindings = append(sub.Bindings, nil)
					}
				}
				x.closureStores(sub, out, seen)
			case *ssa.Call:
				// calls of captured closures (e.g. makeSpace): their stores count too
				if u, ok := i.Call.Value.(*ssa.UnOp); ok {
					if fv, ok := u.X.(*ssa.FreeVar); ok {
						if p, ok := bindOf(fv).(*PtrVal); ok && p.Base == PLocal {
							_ = p
						}
					}
				}
			}
		}
	}
}

// ---- interface method calls ----

func (x *Exec) execInvoke(fr *Frame, st *State, cc *ssa.CallCommon, in ssa.Instruction, rt types.Type) Val {
	recv := x.term(fr, cc.Value)
	var args []Val
	args = append(args, recv)
	for _, a := range cc.Args {
		args = append(args, x.val(fr, a))
	}
	it := types.Unalias(cc.Value.Type())
	key := x.env.te.namedKey(it)
	if key == "" {
		key = x.env.te.typeStr(it)
	}
	key += "." + cc.Method.Name()
	pos := in.Pos()
	x.assert(st, "nil", "method call on nil interface "+x.src(in), mkNot(mkEq(mkSel(recv, 0), mkInt(0))), pos, nil)
	if x.guardMode && x.dry == 0 {
		// an object held in an interface-typed field declared `guard M: *f` is only used under M
		if k, o := heapOfSelect(recv); k != "" {
			if cl := x.env.con.guardSpec().Owner[k]; cl != nil && !x.freshRefs[o] {
				x.assertClassW(st, cl, o, "call of "+key+" on the object in "+k, true, pos)
			}
		}
	}
	if con := x.env.con.Funcs[key]; con != nil {
		con.used = true
		sig := cc.Method.Type().(*types.Signature)
		vars := map[string]cvar{"self": {v: recv, t: it}}
		for i := 0; i < sig.Params().Len(); i++ {
			n := sig.Params().At(i).Name()
			if n == "" || n == "_" {
				n = fmt.Sprintf("arg%d", i)
			}
			vars[n] = cvar{v: args[i+1], t: sig.Params().At(i).Type()}
		}
		x.callSiteAssertsArgs(fr, st, key, in, vars)
		ce := &cenv{x: x, st: st, old: st, vars: vars}
		for _, cl := range con.Requires {
			x.assertClause(st, "precondition", key+" requires ", ce, cl, pos)
		}
		if con.Flags["trusted"] != "" {
			x.unit.Trusted[key] = true
		}
		pre := st.clone()
		if con.Flags["counted"] != "" {
			x.countCall(st, key, nil)
		}
		mods := x.evalModifies(&cenv{x: x, st: pre, old: pre, vars: vars}, con.Modifies)
		for _, m := range mods {
			x.havocEntry(st, m, pos)
		}
		rv := x.freshResult(st, rt)
		res := sig.Results()
		if res.Len() == 1 {
			vars["result"] = cvar{v: rv, t: res.At(0).Type()}
		} else if res.Len() > 1 {
			if tv, ok := rv.(*TupleVal); ok {
				for i := 0; i < res.Len(); i++ {
					vars[fmt.Sprintf("result%d", i)] = cvar{v: tv.Elems[i], t: res.At(i).Type()}
				}
			}
		}
		post := &cenv{x: x, st: st, old: pre, vars: vars}
		for _, cl := range con.Ensures {
			x.assume(st, post.evalBool(cl.Expr))
		}
		return rv
	}
	if lib := invokeTable[key]; lib != nil {
		return lib(x, fr, st, nil, args, in, rt)
	}
	x.havocUnknown(st, "interface call "+key)
	return x.freshResult(st, rt)
}

// ---- channels ----

func (x *Exec) onChanSend(fr *Frame, st *State, ch *Term, v Val, et types.Type, in ssa.Instruction, chv ssa.Value) {
	key := x.chanKey(chv)
	if key == "" {
		return
	}
	if x.env.con.CloseOnly[key] && x.dry == 0 {
		x.assert(st, "closeonly", "send on "+key+", declared close-only", tFalse, in.Pos(), nil)
	}
	if owner := x.env.con.SoleProducer[key]; owner != "" {
		if owner != strings.SplitN(x.topKey(), "$", 2)[0] {
			if x.dry == 0 {
				x.assert(st, "soleproducer", "send on "+key+" outside its declared sole producer "+owner, tFalse, in.Pos(), nil)
			}
		} else {
			// the known upper bound of the length grows by one with this send (applied after the
			// call-site clauses below have been checked against the bound before the send)
			defer func() {
				h := st.H("ghost:chanmax", arraySort(sortInt, sortInt))
				st.setH("ghost:chanmax", mkStore(h, ch, mkAdd(mkSelect(h, ch), mkInt(1))))
			}()
		}
	}
	{
		hn := "ghost:sends:" + key
		h := st.H(hn, arraySort(sortInt, sortInt))
		st.setH(hn, mkStore(h, ch, mkAdd(mkSelect(h, ch), mkInt(1))))
		// the last value sent (as an integer: object pointers only)
		if p, ok := v.(*PtrVal); ok && p.Base == PObj && len(p.Path) == 0 {
			ln := "ghost:lastsent:" + key
			st.setH(ln, mkStore(st.H(ln, arraySort(sortInt, sortInt)), ch, p.Ref))
		}
	}
	// assertions of the sending function about this particular send (its locals are visible)
	if fr != nil && x.dry == 0 {
		if ccon := x.env.con.Funcs[x.env.keyOf(rootFn(fr.fn))]; ccon != nil {
			for _, cl := range ccon.CallSites["chan:"+key] {
				x.assertClause(st, "callsite", "send on "+key+": ", x.clauseEnv(fr, st, map[string]cvar{"msg": {v: v, t: et}}), cl, in.Pos())
			}
		}
	}
	con := x.env.con.Callbacks["chan:"+key]
	if con == nil {
		return
	}
	con.used = true
	vars := map[string]cvar{"msg": {v: v, t: et}}
	if u, ok := chv.(*ssa.UnOp); ok {
		if fa, ok := u.X.(*ssa.FieldAddr); ok {
			vars["self"] = cvar{v: x.val(fr, fa.X), t: fa.X.Type()}
		}
	}
	ce := &cenv{x: x, st: st, old: fr.old, vars: vars}
	for _, cl := range con.Requires {
		x.assertClause(st, "chan-invariant", "send on "+key+" requires ", ce, cl, in.Pos())
	}
}

// chanRecv: the received value is unknown except for the channel's declared invariant (what
// every send on it was checked against), assumed under cond (the select case being chosen).
// Channels with a declared invariant are assumed never to be closed (a receive from a closed
// channel yields the zero value).
func (x *Exec) chanRecv(fr *Frame, st *State, ch *Term, et types.Type, in ssa.Instruction, chv ssa.Value, cond *Term) Val {
	v := x.freshOf(st, "recv", et)
	key := x.chanKey(chv)
	if key == "" {
		return v
	}
	if owner := x.env.con.SoleConsumer[key]; owner != "" {
		if owner != strings.SplitN(x.topKey(), "$", 2)[0] {
			if x.dry == 0 {
				x.assert(st, "soleconsumer", "receive on "+key+" outside its declared sole consumer "+owner, tFalse, in.Pos(), nil)
			}
		} else {
			// a receive takes one element: the known lower bound of the length drops by one
			h := st.H("ghost:chanmin", arraySort(sortInt, sortInt))
			old := mkSelect(h, ch)
			dec := mkIte(mkLt(mkInt(0), old), mkSub(old, mkInt(1)), mkInt(0))
			if cond != nil && cond != tTrue {
				dec = mkIte(cond, dec, old)
			}
			st.setH("ghost:chanmin", mkStore(h, ch, dec))
		}
	}
	if x.env.con.CloseOnly[key] {
		// nothing is ever sent on this channel (every send on it is flagged): a receive that
		// succeeds has seen it closed, and closed is for ever
		g := mkSelect(st.H("ghost:closed", arraySort(sortInt, sortBool)), ch)
		if cond != nil && cond != tTrue {
			g = mkImp(cond, g)
		}
		x.assume(st, g)
	}
	con := x.env.con.Callbacks["chan:"+key]
	if con == nil {
		return v
	}
	con.used = true
	vars := map[string]cvar{"msg": {v: v, t: et}}
	if u, ok := chv.(*ssa.UnOp); ok {
		if fa, ok := u.X.(*ssa.FieldAddr); ok {
			vars["self"] = cvar{v: x.val(fr, fa.X), t: fa.X.Type()}
		}
	}
	sub := st
	if cond != nil && cond != tTrue {
		sub = st.clone()
		sub.pc = mkAnd(st.pc, cond)
	}
	ce := &cenv{x: x, st: sub, old: fr.old, vars: vars}
	for _, cl := range con.Requires {
		x.assume(sub, ce.evalBool(cl.Expr))
	}
	x.note("receive on " + key + ": the channel invariant is assumed for the received value (the channel is never closed)")
	return v
}

func (x *Exec) chanKey(v ssa.Value) string {
	u, ok := v.(*ssa.UnOp)
	if !ok {
		return ""
	}
	fa, ok := u.X.(*ssa.FieldAddr)
	if !ok {
		return ""
	}
	pt := derefType(fa.X.Type())
	sty := structOf(pt)
	if sty == nil {
		return ""
	}
	return x.env.te.namedKey(pt) + "." + sty.Field(fa.Field).Name()
}
