package main

// Discharging obligations: SMT-LIB generation, solver racing, caching.

import (
	"bytes"
	"context"
	"crypto/sha256"
	"encoding/hex"
	"fmt"
	"os"
	"os/exec"
	"path/filepath"
	"strings"
	"sync"
	"time"
)

type SolverCfg struct {
	QuickMs  int
	FullMs   int
	CacheDir string
	Workers  int
	Confirm  bool // thorough: second solver must agree
	KeepDir  string
}

type solverStats struct {
	mu      sync.Mutex
	Count   map[string]int
	CPUms   map[string]int64
	Cached  int
	Queries int
}

var stats = &solverStats{Count: map[string]int{}, CPUms: map[string]int64{}}

// pcSubset: are all conjuncts of the guard of assumption a among the conjuncts of pc?
func guardWithin(a *Term, pcs map[*Term]bool) bool {
	if a.Op != OpImp {
		return true
	}
	for _, c := range conj(a.Args[0]) {
		if !pcs[c] {
			return false
		}
	}
	return true
}

// obligScriptSliced keeps only the assumptions whose path condition is (syntactically) part of
// the obligation's path condition. Dropping assumptions is sound for proving; if the sliced
// query is not proved the full one is tried.
func obligScriptSliced(u *Unit, o *Oblig) (string, bool) {
	pcs := map[*Term]bool{}
	for _, c := range conj(o.PC) {
		pcs[c] = true
	}
	s := newScript("ALL")
	dropped := 0
	for _, a := range u.Assumes[:o.NAssume] {
		if guardWithin(a, pcs) {
			s.Assert(a)
		} else {
			dropped++
		}
	}
	if dropped == 0 {
		return "", false
	}
	s.Assert(mkNot(mkImp(o.PC, o.Goal)))
	s.Raw("(check-sat)")
	return s.String(), true
}

// obligScriptTagSliced drops the loop-invariant assumptions that carry property tags none of
// which is a tag of this obligation (an invariant written for another property). Dropping
// assumptions is sound for proving; only "unsat" answers of this query are used.
func obligScriptTagSliced(u *Unit, o *Oblig) (string, bool) {
	if len(u.AssumeTags) == 0 {
		return "", false
	}
	mine := map[string]bool{}
	for _, t := range o.Tags {
		mine[t] = true
	}
	pcs := map[*Term]bool{}
	for _, c := range conj(o.PC) {
		pcs[c] = true
	}
	s := newScript("ALL")
	dropped := 0
	for _, a := range u.Assumes[:o.NAssume] {
		if guardContradicts(a, pcs) {
			continue
		}
		if tags := u.AssumeTags[a]; len(tags) > 0 {
			keep := false
			for _, t := range tags {
				if mine[t] {
					keep = true
				}
			}
			if !keep {
				dropped++
				continue
			}
		}
		s.Assert(a)
	}
	if dropped == 0 {
		return "", false
	}
	s.Assert(mkNot(mkImp(o.PC, o.Goal)))
	s.Raw("(check-sat)")
	return s.String(), true
}

// guardContradicts: the guard of assumption a contains a conjunct whose negation is a
// conjunct of the obligation's path condition: the assumption is vacuous on this path and
// can be dropped without losing anything.
func guardContradicts(a *Term, pcs map[*Term]bool) bool {
	if a.Op != OpImp {
		return false
	}
	for _, c := range conj(a.Args[0]) {
		if pcs[mkNot(c)] {
			return true
		}
	}
	return false
}

func obligScript(u *Unit, o *Oblig) string {
	s := newScript("ALL")
	pcs := map[*Term]bool{}
	for _, c := range conj(o.PC) {
		pcs[c] = true
	}
	for _, a := range u.Assumes[:o.NAssume] {
		if guardContradicts(a, pcs) {
			continue
		}
		s.Assert(a)
	}
	if o.Cover {
		s.Assert(o.PC)
	} else {
		s.Assert(mkNot(mkImp(o.PC, o.Goal)))
	}
	s.Raw("(check-sat)")
	return s.String()
}

type solverDef struct {
	name string
	args func(ms int) []string
}

var solvers = []solverDef{
	// NB: z3's soft timeout (-t) changes its internal strategy and made results depend on the
	// timeout value; the limit is enforced from outside (process kill) instead.
	{"z3-new", func(ms int) []string { return []string{"z3-new", "-in", "-smt2"} }},
	{"cvc5", func(ms int) []string { return []string{"cvc5", "--lang=smt2", fmt.Sprintf("--tlimit=%d", ms), "-"} }},
	{"z3", func(ms int) []string { return []string{"z3", "-in", "-smt2"} }},
	{"z3-new/noauto", func(ms int) []string {
		return []string{"z3-new", "-in", "-smt2", "smt.auto_config=false"}
	}},
}

func runSolver(ctx context.Context, sd solverDef, script string, ms int, cfg *SolverCfg, wantModel bool) (res string, out string, dur time.Duration) {
	text := script
	if wantModel {
		text += "(get-model)\n"
	}
	key := ""
	if cfg.CacheDir != "" {
		h := sha256.Sum256([]byte(sd.name + "\x00" + fmt.Sprint(ms/1000) + "\x00" + text))
		key = filepath.Join(cfg.CacheDir, hex.EncodeToString(h[:])[:2], hex.EncodeToString(h[:]))
		if b, err := os.ReadFile(key); err == nil {
			parts := strings.SplitN(string(b), "\n", 2)
			if parts[0] == "unsat" || parts[0] == "sat" {
				stats.mu.Lock()
				stats.Cached++
				stats.mu.Unlock()
				o := ""
				if len(parts) > 1 {
					o = parts[1]
				}
				return parts[0], o, 0
			}
		}
	}
	args := sd.args(ms)
	// The limit is on the solver's CPU time (ulimit -t), so that a loaded machine does not turn
	// proofs into timeouts; the wall-clock cap is only a backstop (8x).
	cpuSec := (ms + 999) / 1000
	if cpuSec < 1 {
		cpuSec = 1
	}
	cctx, cancel := context.WithTimeout(ctx, time.Duration(8*cpuSec)*time.Second)
	defer cancel()
	shArgs := append([]string{"-c", fmt.Sprintf("ulimit -t %d; exec \"$0\" \"$@\"", cpuSec)}, args...)
	cmd := exec.CommandContext(cctx, "sh", shArgs...)
	cmd.Stdin = strings.NewReader(text)
	var buf bytes.Buffer
	cmd.Stdout = &buf
	cmd.Stderr = &buf
	t0 := time.Now()
	_ = cmd.Run()
	dur = time.Since(t0)
	out = buf.String()
	first := strings.TrimSpace(strings.SplitN(out, "\n", 2)[0])
	switch first {
	case "unsat", "sat":
		res = first
	case "unknown", "timeout":
		res = "unknown"
	default:
		if cctx.Err() != nil || first == "" || strings.Contains(out, "CPU time limit") || strings.Contains(out, "Killed") {
			res = "unknown" // killed by the CPU-time limit or the wall-clock backstop
		} else {
			res = "error"
		}
	}
	stats.mu.Lock()
	stats.Count[sd.name]++
	stats.CPUms[sd.name] += dur.Milliseconds()
	stats.Queries++
	stats.mu.Unlock()
	if key != "" && (res == "unsat" || res == "sat") {
		os.MkdirAll(filepath.Dir(key), 0o755)
		o := out
		if len(o) > 20000 {
			o = o[:20000]
		}
		os.WriteFile(key, []byte(res+"\n"+o), 0o644)
	}
	return res, out, dur
}

// discharge decides one obligation.
func discharge(u *Unit, o *Oblig, script string, sliced string, tagSliced string, cfg *SolverCfg) {
	if o.Trivial || o.Result == "violated" {
		return // decided during generation (simplifier / kind pass)
	}
	t0 := time.Now()
	defer func() { o.TimeMs = time.Since(t0).Milliseconds() }()
	ctx := context.Background()
	if o.Cover {
		res, _, _ := runSolver(ctx, solvers[0], script, 2000, cfg, false)
		o.Result, o.Solver = res, "z3-new"
		if res == "unsat" {
			// double check with another solver before calling it vacuous
			r2, _, _ := runSolver(ctx, solvers[1], script, 2000, cfg, false)
			if r2 == "sat" {
				o.Result = "sat"
				o.Solver = "cvc5"
			}
		}
		return
	}
	// stage 0: sliced query (assumptions on this obligation's path only)
	if sl := sliced; sl != "" {
		r, _, _ := runSolver(ctx, solvers[0], sl, 400, cfg, false)
		if r == "unsat" {
			o.Result, o.Solver = "unsat", "z3-new/sliced"
		}
		if o.Result == "unsat" {
			if cfg.Confirm {
				confirm(o, sl, cfg)
			}
			return
		}
	}
	// stage 1: fast path
	res, out, _ := runSolver(ctx, solvers[0], script, cfg.QuickMs, cfg, false)
	if res == "unsat" {
		o.Result, o.Solver = "unsat", "z3-new"
		if cfg.Confirm {
			confirm(o, script, cfg)
		}
		return
	}
	if res == "error" {
		o.Output = truncate(out, 2000)
	}
	if o.Short {
		o.Result, o.Solver = "unknown", "z3-new/short"
		if res == "sat" {
			o.Result = "sat"
		}
		return
	}
	// stage 2: race all solvers with the full timeout
	type ans struct {
		res, out, solver string
	}
	cctx, cancel := context.WithCancel(ctx)
	defer cancel()
	ch := make(chan ans, len(solvers)+2)
	racers := 0
	for _, sd := range solvers {
		sd := sd
		racers++
		go func() {
			r, ot, _ := runSolver(cctx, sd, script, cfg.FullMs, cfg, false)
			ch <- ans{r, ot, sd.name}
		}()
	}
	if tagSliced != "" {
		// the same goal without the loop invariants written for other properties: only a
		// proof counts (fewer assumptions), never a model
		for _, sd := range []solverDef{solvers[0], solvers[2]} {
			sd := sd
			racers++
			go func() {
				r, ot, _ := runSolver(cctx, sd, tagSliced, cfg.FullMs, cfg, false)
				if r != "unsat" {
					r = "unknown"
				}
				ch <- ans{r, ot, sd.name + "/own-tags"}
			}()
		}
	}
	final := ans{res: "unknown"}
	var errs []string
	for i := 0; i < racers; i++ {
		a := <-ch
		if a.res == "unsat" {
			final = a
			break
		}
		if a.res == "sat" && final.res != "sat" {
			final = a
		}
		if a.res == "error" {
			errs = append(errs, a.solver+": "+truncate(a.out, 300))
		}
	}
	cancel()
	if final.res == "unknown" {
		// last chance, sequentially and with twice the budget (a race of four solvers on a busy
		// machine can starve all of them)
		if tagSliced != "" {
			for _, sd := range []solverDef{solvers[2], solvers[0]} {
				if r, ot, _ := runSolver(ctx, sd, tagSliced, cfg.FullMs, cfg, false); r == "unsat" {
					final = ans{r, ot, sd.name + "/own-tags/retry"}
					break
				}
			}
		}
		for _, sd := range []solverDef{solvers[2], solvers[0]} {
			if final.res == "unsat" {
				break
			}
			r, ot, _ := runSolver(ctx, sd, script, cfg.FullMs, cfg, false)
			if r == "unsat" || r == "sat" {
				final = ans{r, ot, sd.name + "/retry"}
				break
			}
		}
	}
	o.Result, o.Solver = final.res, final.solver
	if final.res == "sat" {
		// fetch a model from z3-new (or whoever said sat)
		for _, sd := range solvers {
			if sd.name == final.solver {
				_, mo, _ := runSolver(ctx, sd, script, cfg.FullMs, cfg, true)
				o.Output = truncate(mo, 6000)
			}
		}
	} else if final.res != "unsat" {
		o.Output = strings.Join(errs, "\n")
		if o.Output == "" {
			o.Output = "no solver decided the query within the time limit"
		}
	}
	if cfg.KeepDir != "" && final.res != "unsat" {
		os.MkdirAll(cfg.KeepDir, 0o755)
		os.WriteFile(filepath.Join(cfg.KeepDir, safeName(o.Name)+".smt2"), []byte(script), 0o644)
	}
	if final.res == "unsat" && cfg.Confirm {
		confirm(o, script, cfg)
	}
}

// confirm (thorough tier): a second, different solver must not contradict.
func confirm(o *Oblig, script string, cfg *SolverCfg) {
	for _, sd := range solvers {
		if strings.HasPrefix(o.Solver, sd.name) || strings.HasPrefix(sd.name, strings.SplitN(o.Solver, "/", 2)[0]) {
			continue
		}
		r, _, _ := runSolver(context.Background(), sd, script, cfg.FullMs, cfg, false)
		if r == "unsat" {
			o.Solver += "+" + sd.name
			return
		}
		if r == "sat" {
			o.Result = "disagree"
			o.Output = fmt.Sprintf("%s says unsat, %s says sat", o.Solver, sd.name)
			return
		}
	}
}

func truncate(s string, n int) string {
	if len(s) > n {
		return s[:n] + "…"
	}
	return s
}

func safeName(s string) string {
	var sb strings.Builder
	for _, c := range s {
		if c >= 'a' && c <= 'z' || c >= 'A' && c <= 'Z' || c >= '0' && c <= '9' || c == '.' || c == '-' || c == '_' {
			sb.WriteRune(c)
		} else {
			sb.WriteByte('_')
		}
	}
	r := sb.String()
	if len(r) > 150 {
		h := sha256.Sum256([]byte(s))
		r = r[:130] + "_" + hex.EncodeToString(h[:6])
	}
	return r
}

// dischargeAll runs all obligations of the units with a worker pool.
func dischargeAll(units []*Unit, cfg *SolverCfg, filter func(o *Oblig) bool) {
	sem := make(chan struct{}, cfg.Workers)
	var wg sync.WaitGroup
	for _, u := range units {
		for _, o := range u.Obligs {
			if o.Trivial || o.Result == "violated" || (filter != nil && !filter(o)) {
				continue
			}
			// scripts are generated here, one at a time (term construction is not
			// thread-safe and all scripts at once would not fit in memory)
			sem <- struct{}{}
			script := obligScript(u, o)
			sliced := ""
			if !o.Cover {
				sliced, _ = obligScriptSliced(u, o)
			}
			tagSliced := ""
			if !o.Cover && !o.Short {
				tagSliced, _ = obligScriptTagSliced(u, o)
			}
			u, o := u, o
			wg.Add(1)
			go func() {
				defer wg.Done()
				defer func() { <-sem }()
				discharge(u, o, script, sliced, tagSliced, cfg)
			}()
		}
	}
	wg.Wait()
}
