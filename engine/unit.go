package main

// Verification units: one top-level function verified against its contract.

import (
	"fmt"
	"go/types"
	"sort"
	"strings"

	"golang.org/x/tools/go/ssa"
)

type UnitOpts struct {
	LockMode   bool      // generate lock discipline obligations
	Sequential bool      // Lock does not forget state (this call's own effects)
	Guard      bool      // C14: check the lock-guard discipline on every access
	Inst       *Instance // finite parameter instantiation (proof by instantiation)
}

// Instance fixes some parameters/globals of a unit to concrete shapes (slice headers with
// concrete reference, offset and length; contents stay symbolic) and runs it on a single path.
type Instance struct {
	Label   string
	Params  map[string]*Term // parameter name -> value
	Globals map[string]*Term // package-level variable -> value
	Objlen  map[int64]int64  // backing array lengths of the concrete references
	BS      int              // block size of the (uninterpreted) block cipher
	Fields  map[string]*Term // "F:Type.field" -> value of that field of the receiver object
}

func (x *Exec) paramVal(st *State, fr *Frame, i int, p *ssa.Parameter) Val {
	t := types.Unalias(p.Type())
	name := "p." + p.Name()
	if pt := derefType(t); pt != nil && !isTypeParam(pt) {
		if structOf(pt) != nil && x.env.te.isObjectLike(pt) {
			r := mkVar(name, sortInt)
			x.assume(st, mkAnd(mkLe(mkInt(0), r), mkLe(r, x.alloc(st))))
			return &PtrVal{Nilc: mkEq(r, mkInt(0)), Base: PObj, Ref: r, BTyp: pt, Typ: pt}
		}
		// pointer to a value: copy-in/copy-out cell (assumed non-nil and unaliased)
		c := x.newCell("*"+p.Name(), pt, p.Pos())
		v := mkVar(name+".val", x.env.te.sortOf(pt))
		x.assumeTyped(st, pt, v)
		st.cells[c] = v
		fr.pcells[i] = c
		x.note(fmt.Sprintf("pointer parameter %s of %s modelled as an unaliased non-nil cell", p.Name(), fr.key))
		return &PtrVal{Nilc: tFalse, Base: PLocal, Cell: c, BTyp: pt, Typ: pt}
	}
	v := mkVar(name, x.env.te.sortOf(t))
	x.assumeTyped(st, t, v)
	return x.fromTerm(v, t)
}

// verifyUnit generates all obligations of fn against its contract.
func verifyUnit(env *Env, key string, fn *ssa.Function, opts UnitOpts) (u *Unit) {
	x := newExec(env, key, fn)
	x.lockMode = opts.LockMode
	x.sequential = opts.Sequential
	x.guardMode = opts.Guard
	u = x.unit
	defer func() {
		if r := recover(); r != nil {
			if us, ok := r.(unsupported); ok {
				u.Unsupported = append(u.Unsupported, us.msg)
				return
			}
			panic(r)
		}
	}()
	con := env.con.Funcs[key]
	if con != nil {
		con.used = true
	}
	st := newState()
	fr := &Frame{fn: fn, key: key, cells: map[*ssa.Alloc]*Cell{}, regs: map[ssa.Value]Val{}, top: true, con: con, pcells: map[int]*Cell{}}
	x.topFrame = fr
	x.assume(st, mkLe(mkInt(0), x.alloc(st)))
	st.setH("ghost:cb_n", mkInt(0))
	if opts.Inst != nil {
		x.concrete = true
		x.inst = opts.Inst
		u.Key = key + "@" + opts.Inst.Label
		for ref, n := range opts.Inst.Objlen {
			x.assume(st, mkEq(objlen(mkInt(ref)), mkInt(n)))
		}
		x.assume(st, mkLe(mkInt(2000), x.alloc(st)))
		for g, v := range opts.Inst.Globals {
			st.setH("G:"+env.spkg.Pkg.Name()+"."+g, v)
		}
	}
	for i, p := range fn.Params {
		if opts.Inst != nil {
			if v, ok := opts.Inst.Params[p.Name()]; ok {
				fr.params = append(fr.params, v)
				continue
			}
		}
		fr.params = append(fr.params, x.paramVal(st, fr, i, p))
	}
	for _, fv := range fn.FreeVars {
		// free variables of a closure verified on its own: unconstrained cells
		pt := derefType(fv.Type())
		if pt == nil {
			fr.freeVars = append(fr.freeVars, x.freshOf(st, "fv."+fv.Name(), fv.Type()))
			continue
		}
		if structOf(pt) != nil && x.env.te.isObjectLike(pt) {
			fr.freeVars = append(fr.freeVars, x.freshOf(st, "fv."+fv.Name(), fv.Type()))
			continue
		}
		c := x.newCell(fv.Name(), pt, fv.Pos())
		// captured variable: its content is a pointer/slice/value of type pt
		st.cells[c] = x.freshOf(st, "fv."+fv.Name(), pt)
		fr.freeVars = append(fr.freeVars, &PtrVal{Nilc: tFalse, Base: PLocal, Cell: c, BTyp: pt, Typ: pt})
	}
	if opts.Inst != nil && len(opts.Inst.Fields) > 0 && len(fr.params) > 0 {
		if p, ok := fr.params[0].(*PtrVal); ok && p.Base == PObj {
			var names []string
			for n := range opts.Inst.Fields {
				names = append(names, n)
			}
			sort.Strings(names)
			for _, n := range names {
				v := opts.Inst.Fields[n]
				h := st.H(n, arraySort(sortInt, v.Sort))
				st.setH(n, mkStore(h, p.Ref, v))
			}
		}
	}
	// implicit: receiver non-nil
	if fn.Signature.Recv() != nil && len(fr.params) > 0 {
		if p, ok := fr.params[0].(*PtrVal); ok && p.Nilc != tFalse {
			x.assume(st, mkNot(p.Nilc))
			q := *p
			q.Nilc = tFalse
			fr.params[0] = &q
		}
	}
	fr.old = st.clone()
	vars := x.frameVars(fr)
	for k, fv := range fn.FreeVars {
		// captured variables are visible to the closure's contract by name (current content)
		if p, ok := fr.freeVars[k].(*PtrVal); ok && p.Base == PLocal {
			vars[fv.Name()] = cvar{v: st.cells[p.Cell], t: p.Cell.Typ}
		} else {
			vars[fv.Name()] = cvar{v: fr.freeVars[k], t: fv.Type()}
		}
	}
	for _, ax := range env.con.Axioms {
		ce := &cenv{x: x, st: st, old: st, vars: map[string]cvar{}}
		x.assume(st, ce.evalBool(ax.Expr))
		x.note("axiom (global initialised once, never reassigned): " + ax.Src)
	}
	if con != nil {
		ce := &cenv{x: x, st: st, old: fr.old, vars: vars}
		for _, cl := range con.Requires {
			x.assume(st, ce.evalBool(cl.Expr))
		}
		if con.HasModifies {
			x.modAllowed = x.evalModifies(&cenv{x: x, st: fr.old, old: fr.old, vars: vars}, con.Modifies)
			// guard mode checks the locking discipline only: frame obligations of (possibly
			// trusted, abstracting) contracts are not generated, so they cannot be assumed either
			x.modCheck = !x.guardMode
		}
	}
	if x.lockMode {
		// entry points are called with none of the package's mutexes held by the caller, except
		// those the contract's requires mention (held(...) there creates the flag heap first)
		for _, hn := range env.mutexHeaps() {
			if _, ok := st.heap[hn]; !ok {
				st.setH(hn, mkConstArr(arraySort(sortInt, sortBool), tFalse))
			}
		}
	}
	fr.old = st.clone()
	x.cover(st, "precondition satisfiable")
	x.runBody(fr, st)
	// returns
	for _, r := range fr.rets {
		if r.st.pc == tFalse {
			continue
		}
		if con == nil {
			continue
		}
		rvars := map[string]cvar{}
		for k, v := range vars {
			rvars[k] = v
		}
		x.bindResult(rvars, fn, r.val)
		ce := &cenv{x: x, st: r.st, old: fr.old, vars: rvars, fr: fr}
		for _, cl := range con.Ensures {
			x.assertEnsures(r.st, ce, cl, fn)
		}
		if con.HasModifies {
			// copy-in cells not listed in modifies must be unchanged
			var pidx []int
			for i := range fr.pcells {
				pidx = append(pidx, i)
			}
			sort.Ints(pidx)
			for _, i := range pidx {
				c := fr.pcells[i]
				listed := false
				for _, m := range x.modAllowed {
					if m.ptr != nil && m.ptr.Base == PLocal && m.ptr.Cell == c {
						listed = true
					}
				}
				if listed {
					continue
				}
				ov, ok1 := fr.old.cells[c].(*Term)
				nv, ok2 := r.st.cells[c].(*Term)
				if ok1 && ok2 {
					x.assert(r.st, "frame", "*"+fn.Params[i].Name()+" unchanged", mkEq(ov, nv), fn.Pos(), nil)
				}
			}
		}
		if x.lockMode {
			x.checkNoLocksHeld(r.st, fn)
		}
	}
	if len(fr.rets) > 0 {
		var pcs []*Term
		for _, r := range fr.rets {
			pcs = append(pcs, r.st.pc)
		}
		cs := newState()
		cs.pc = mkOr(pcs...)
		x.cover(cs, "some return reachable")
	}
	return u
}

func (x *Exec) checkNoLocksHeld(st *State, fn *ssa.Function) {
	var names []string
	for n := range st.heap {
		if strings.HasPrefix(n, "ghost:held:") || strings.HasPrefix(n, "ghost:rheld:") {
			names = append(names, n)
		}
	}
	sort.Strings(names)
	for _, n := range names {
		cur := st.heap[n]
		old := x.topFrame.old.H(n, cur.Sort)
		if cur == old {
			continue
		}
		// every location written must be back to its entry value
		t := cur
		for t.Op == OpStore {
			ref := t.Args[1]
			x.assert(st, "lock", "lock state restored at return: "+strings.TrimPrefix(n, "ghost:held:"), mkEq(mkSelect(cur, ref), mkSelect(old, ref)), fn.Pos(), nil)
			t = t.Args[0]
		}
	}
}

func (x *Exec) atomicTouch(st *State, p *PtrVal, in ssa.Instruction) {}

// assertEnsures checks a postcondition at one return; a clause that mentions a local which is
// not alive at this return (declared after it) does not apply there.
func (x *Exec) assertEnsures(st *State, ce *cenv, cl *Clause, fn *ssa.Function) {
	defer func() {
		if r := recover(); r != nil {
			if us, ok := r.(unsupported); ok && strings.Contains(us.msg, "unknown identifier") {
				x.note("postcondition mentioning a local not alive at an early return skipped there: " + cl.Src)
				return
			}
			panic(r)
		}
	}()
	x.assertClause(st, "ensures", "", ce, cl, fn.Pos())
}
