package main

// Evaluation of contract expressions over symbolic states.

import (
	"fmt"
	"go/constant"
	"go/token"
	"go/types"
	"math/big"
	"strings"

	"golang.org/x/tools/go/ssa"
)

type cvar struct {
	v      Val
	t      types.Type
	origin string // "Struct.field" when the value was read directly from that field
}

type cenv struct {
	x        *Exec
	st       *State
	old      *State
	vars     map[string]cvar
	fr       *Frame
	useCells bool
	depth    int
	pos      token.Pos
	bound    map[string]bool
}

var mathInt = types.Typ[types.UntypedInt]

func (ce *cenv) fail(f string, a ...any) {
	panic(unsupported{"contract: " + fmt.Sprintf(f, a...)})
}

func (ce *cenv) sub(vars map[string]cvar) *cenv {
	n := *ce
	n.vars = vars
	n.depth++
	if n.depth > 40 {
		ce.fail("spec recursion too deep")
	}
	return &n
}

func (ce *cenv) evalBool(e *CExpr) *Term {
	v := ce.eval(e)
	t, ok := v.v.(*Term)
	if !ok || t.Sort != sortBool {
		ce.fail("boolean expected: %s", e)
	}
	return t
}

func (ce *cenv) evalInt(e *CExpr) *Term {
	v := ce.eval(e)
	t, ok := v.v.(*Term)
	if !ok || t.Sort != sortInt {
		ce.fail("integer expected: %s", e)
	}
	return t
}

// evalClause evaluates a clause in the context of a frame.
func (x *Exec) evalClause(fr *Frame, st *State, cl *Clause, pos token.Pos, useCells bool) *Term {
	ce := &cenv{x: x, st: st, old: fr.old, vars: x.frameVars(fr), fr: fr, useCells: useCells, pos: pos}
	return ce.evalBool(cl.Expr)
}

func (x *Exec) evalClauseWith(fr *Frame, st *State, cl *Clause, extra map[string]cvar) *Term {
	vars := x.frameVars(fr)
	for k, v := range extra {
		vars[k] = v
	}
	ce := &cenv{x: x, st: st, old: fr.old, vars: vars, fr: fr, useCells: true, bound: map[string]bool{}}
	for k := range extra {
		ce.bound[k] = true
	}
	return ce.evalBool(cl.Expr)
}

// frameVars: parameters of the outermost source function in the frame chain, by name (entry values).
func (x *Exec) frameVars(fr *Frame) map[string]cvar {
	vars := map[string]cvar{}
	for f := fr; f != nil; f = f.parent {
		sigNames(f, vars)
	}
	return vars
}

func sigNames(f *Frame, vars map[string]cvar) {
	for i, p := range f.fn.Params {
		if i < len(f.params) {
			if _, dup := vars[p.Name()]; !dup {
				v := f.params[i]
				if c, ok := f.pcells[i]; ok {
					v = &PtrVal{Nilc: tFalse, Base: PLocal, Cell: c, BTyp: c.Typ, Typ: c.Typ}
				}
				vars[p.Name()] = cvar{v: v, t: p.Type()}
			}
		}
	}
}

func (ce *cenv) lookupLocal(name string) (cvar, bool) {
	if ce.fr == nil {
		return cvar{}, false
	}
	var best *Cell
	for f := ce.fr; f != nil; f = f.parent {
		for _, c := range f.cells {
			if c.Name != name {
				continue
			}
			if _, live := ce.st.cells[c]; !live {
				continue
			}
			if best == nil || c.Pos > best.Pos || (c.Pos == best.Pos && c.ID > best.ID) {
				best = c
			}
		}
		if best != nil {
			break
		}
	}
	if best == nil {
		return cvar{}, false
	}
	return cvar{v: ce.st.cells[best], t: best.Typ}, true
}

func (ce *cenv) ident(name string) cvar {
	if ce.bound[name] {
		return ce.vars[name]
	}
	if ce.useCells {
		if v, ok := ce.lookupLocal(name); ok {
			return v
		}
	}
	if v, ok := ce.vars[name]; ok {
		return v
	}
	if !ce.useCells && ce.fr != nil {
		// postconditions may mention locals (their value at the return)
		if v, ok := ce.lookupLocal(name); ok {
			return v
		}
	}
	x := ce.x
	// ghost names
	switch name {
	case "cb_n":
		return cvar{v: ce.st.H("ghost:cb_n", sortInt), t: mathInt}
	}
	if c, ok := x.env.con.Consts[name]; ok {
		return ce.eval(c)
	}
	obj := x.env.pkg.Types.Scope().Lookup(name)
	switch o := obj.(type) {
	case *types.Const:
		if o.Val().Kind() == constant.Int {
			v, _ := new(big.Int).SetString(o.Val().ExactString(), 10)
			return cvar{v: mkBig(v), t: mathInt}
		}
		if o.Val().Kind() == constant.Bool {
			return cvar{v: mkBool(constant.BoolVal(o.Val())), t: types.Typ[types.Bool]}
		}
	case *types.Var:
		if g, ok := x.env.spkg.Members[name].(*ssa.Global); ok {
			p := &PtrVal{Nilc: tFalse, Base: PGlobal, Glob: g, BTyp: o.Type(), Typ: o.Type()}
			tm, t := x.loadTerm(ce.st, p)
			ce.typed(t, tm)
			return cvar{v: x.fromTerm(tm, t), t: t}
		}
	}
	ce.fail("unknown identifier %q", name)
	return cvar{}
}

func (ce *cenv) isParamName(name string) bool {
	for f := ce.fr; f != nil; f = f.parent {
		for _, p := range f.fn.Params {
			if p.Name() == name {
				return true
			}
		}
	}
	return false
}

func (ce *cenv) typed(t types.Type, tm *Term) {
	x := ce.x
	if x.noTypeFacts {
		return
	}
	al := ce.st.H("$alloc", sortInt)
	f := x.env.te.typeFacts(t, tm, al, 0)
	if f == tTrue {
		return
	}
	if x.factSink != nil {
		*x.factSink = append(*x.factSink, f)
	} else {
		x.assume(ce.st, f)
	}
}

func isNilExpr(e *CExpr) bool { return e.Kind == "nil" }

func (ce *cenv) eval(e *CExpr) cvar {
	x := ce.x
	switch e.Kind {
	case "int":
		return cvar{v: mkBig(e.Val), t: mathInt}
	case "bool":
		return cvar{v: mkBool(e.Name == "true"), t: types.Typ[types.Bool]}
	case "nil":
		return cvar{v: nilPtr(nil), t: types.Typ[types.UntypedNil]}
	case "id":
		return ce.ident(e.Name)
	case "un":
		switch e.Op {
		case "!":
			return cvar{v: mkNot(ce.evalBool(e.X)), t: types.Typ[types.Bool]}
		case "-":
			return cvar{v: mkNeg(ce.evalInt(e.X)), t: mathInt}
		case "&":
			p := ce.addrOf(e.X)
			if p == nil {
				ce.fail("cannot take address of %s", e.X)
			}
			return cvar{v: p, t: types.NewPointer(p.Typ)}
		}
	case "bin":
		return ce.evalBin(e)
	case "cond":
		c := ce.evalBool(e.X)
		a, b := ce.eval(e.Y), ce.eval(e.Z)
		return cvar{v: x.mergeVal(c, a.v, b.v), t: a.t}
	case "field":
		return ce.evalField(e)
	case "index":
		return ce.evalIndex(e)
	case "slice":
		b := ce.eval(e.X)
		s := x.toTerm(b.v, b.t)
		lo := mkInt(0)
		if e.Y != nil {
			lo = ce.evalInt(e.Y)
		}
		hi := sliceLen(s)
		if e.Z != nil {
			hi = ce.evalInt(e.Z)
		}
		return cvar{v: mkSlice(sliceRef(s), mkAdd(sliceOff(s), lo), mkSub(hi, lo), mkSub(sliceCap(s), lo)), t: b.t}
	case "quant":
		return ce.evalQuant(e)
	case "call":
		return ce.evalCall(e)
	case "mcall":
		return ce.evalMCall(e)
	}
	ce.fail("cannot evaluate %s", e)
	return cvar{}
}

func (ce *cenv) evalQuant(e *CExpr) cvar {
	x := ce.x
	vars := map[string]cvar{}
	for k, v := range ce.vars {
		vars[k] = v
	}
	var bound []*Term
	var ranges []*Term
	for _, d := range e.Vars {
		if d.Type == "string" {
			b := mkBound(d.Name, sortStr)
			bound = append(bound, b)
			vars[d.Name] = cvar{v: b, t: types.Typ[types.String]}
			continue
		}
		b := mkBound(d.Name, sortInt)
		switch d.Type {
		case "int":
		case "uint32":
			ranges = append(ranges, inRange(b, 32, false))
		case "uint16":
			ranges = append(ranges, inRange(b, 16, false))
		case "uint8", "byte":
			ranges = append(ranges, inRange(b, 8, false))
		case "uint64":
			ranges = append(ranges, inRange(b, 64, false))
		case "int32":
			ranges = append(ranges, inRange(b, 32, true))
		default:
			ce.fail("unsupported quantifier type %s", d.Type)
		}
		bound = append(bound, b)
		vars[d.Name] = cvar{v: b, t: mathInt}
	}
	nb := map[string]bool{}
	for k := range ce.bound {
		nb[k] = true
	}
	for _, d := range e.Vars {
		nb[d.Name] = true
	}
	save := x.factSink
	var facts []*Term
	x.factSink = &facts
	sub := ce.sub(vars)
	sub.bound = nb
	body := func() *Term {
		defer func() { x.factSink = save }()
		return sub.evalBool(e.X)
	}()
	// facts not mentioning the bound variables are hoisted
	var inner []*Term
	for _, f := range facts {
		for _, c := range conj(f) {
			if c.closed {
				if save != nil {
					*save = append(*save, c)
				} else {
					x.assume(ce.st, c)
				}
			} else {
				inner = append(inner, c)
			}
		}
	}
	// typing facts about the bound variables hold for every instance: they are assumed as a
	// separate universally quantified fact instead of weakening the body with a premise.
	if len(inner) > 0 {
		tf := mkForall(bound, mkAnd(inner...))
		if save != nil {
			*save = append(*save, tf)
		} else {
			x.assume(ce.st, tf)
		}
	}
	pre := mkAnd(ranges...)
	if e.Op == "forall" {
		return cvar{v: mkForall(bound, mkImp(pre, body)), t: types.Typ[types.Bool]}
	}
	return cvar{v: mkExists(bound, mkAnd(pre, body)), t: types.Typ[types.Bool]}
}

func (ce *cenv) valEq(a, b cvar, ea, eb *CExpr) *Term {
	x := ce.x
	if isNilExpr(eb) {
		return ce.isNil(a)
	}
	if isNilExpr(ea) {
		return ce.isNil(b)
	}
	_, ap := a.v.(*PtrVal)
	_, bp := b.v.(*PtrVal)
	if ap || bp {
		t := a.t
		if !ap {
			t = b.t
		}
		return x.ptrEq(a.v, b.v, t)
	}
	ta, tb := x.toTerm(a.v, a.t), x.toTerm(b.v, b.t)
	if ta.Sort != tb.Sort {
		ce.fail("comparison of different sorts: %s (%s) vs %s (%s)", ea, ta.Sort.Name, eb, tb.Sort.Name)
	}
	return mkEq(ta, tb)
}

func (ce *cenv) isNil(a cvar) *Term {
	x := ce.x
	switch v := a.v.(type) {
	case *PtrVal:
		return v.Nilc
	case *Term:
		switch v.Sort {
		case sortSlice:
			return mkEq(sliceRef(v), mkInt(0))
		case sortIface:
			return mkEq(mkSel(v, 0), mkInt(0))
		case sortInt:
			return mkEq(v, mkInt(0))
		}
	case *ClosureVal:
		return tFalse
	}
	_ = x
	ce.fail("nil comparison on unsupported value")
	return nil
}

func (ce *cenv) evalBin(e *CExpr) cvar {
	x := ce.x
	boolT := types.Typ[types.Bool]
	switch e.Op {
	case "&&":
		return cvar{v: mkAnd(ce.evalBool(e.X), ce.evalBool(e.Y)), t: boolT}
	case "||":
		return cvar{v: mkOr(ce.evalBool(e.X), ce.evalBool(e.Y)), t: boolT}
	case "==>":
		return cvar{v: mkImp(ce.evalBool(e.X), ce.evalBool(e.Y)), t: boolT}
	case "<==>":
		return cvar{v: mkEq(ce.evalBool(e.X), ce.evalBool(e.Y)), t: boolT}
	case "==", "!=":
		a, b := ce.eval(e.X), ce.eval(e.Y)
		eq := ce.valEq(a, b, e.X, e.Y)
		if e.Op == "!=" {
			eq = mkNot(eq)
		}
		return cvar{v: eq, t: boolT}
	}
	a, b := ce.evalInt(e.X), ce.evalInt(e.Y)
	switch e.Op {
	case "<":
		return cvar{v: mkLt(a, b), t: boolT}
	case "<=":
		return cvar{v: mkLe(a, b), t: boolT}
	case ">":
		return cvar{v: mkLt(b, a), t: boolT}
	case ">=":
		return cvar{v: mkLe(b, a), t: boolT}
	case "+":
		return cvar{v: mkAdd(a, b), t: mathInt}
	case "-":
		return cvar{v: mkSub(a, b), t: mathInt}
	case "*":
		return cvar{v: mkMul(a, b), t: mathInt}
	case "/":
		return cvar{v: mkDiv(a, b), t: mathInt}
	case "%":
		ce.modFacts(a, b)
		return cvar{v: mkMod(a, b), t: mathInt}
	case "<<":
		if !isInt(b) {
			ce.fail("shift by non-constant")
		}
		return cvar{v: mkMul(a, mkBig(pow2(int(b.Val.Int64())))), t: mathInt}
	case ">>":
		if !isInt(b) {
			ce.fail("shift by non-constant")
		}
		return cvar{v: mkDiv(a, mkBig(pow2(int(b.Val.Int64())))), t: mathInt}
	case "&", "|", "^", "&^":
		op := map[string]token.Token{"&": token.AND, "|": token.OR, "^": token.XOR, "&^": token.AND_NOT}[e.Op]
		return cvar{v: x.bitop(ce.st, op, a, b, types.Typ[types.Uint64]), t: mathInt}
	}
	ce.fail("operator %s", e.Op)
	return cvar{}
}

// pure load through a pointer (no obligations)
func (ce *cenv) loadPtr(p *PtrVal) cvar {
	x := ce.x
	if p.Undef {
		ce.fail("undefined pointer in contract")
	}
	if p.Base == PLocal && len(p.Path) == 0 {
		v, ok := ce.st.cells[p.Cell]
		if !ok {
			ce.fail("dead local %s in contract", p.Cell.Name)
		}
		return cvar{v: v, t: p.Cell.Typ}
	}
	if p.Base == PNil {
		// dereference of a literal nil (in a guarded position): an arbitrary value
		if p.Typ == nil {
			ce.fail("nil dereference in contract")
		}
		tm := fresh("nilderef", x.env.te.sortOf(p.Typ))
		return cvar{v: x.fromTerm(tm, p.Typ), t: p.Typ}
	}
	tm, t := x.loadTerm(ce.st, p)
	ce.typed(t, tm)
	return cvar{v: x.fromTerm(tm, t), t: t}
}

func (ce *cenv) evalField(e *CExpr) cvar {
	x := ce.x
	b := ce.eval(e.X)
	if e.Name == "0" || e.Name == "1" || e.Name == "2" {
		if tv, ok := b.v.(*TupleVal); ok {
			k := int(e.Name[0] - '0')
			var t types.Type
			if tup, ok := b.t.(*types.Tuple); ok {
				t = tup.At(k).Type()
			}
			return cvar{v: tv.Elems[k], t: t}
		}
	}
	if b.t == nil {
		ce.fail("field %s of untyped value", e.Name)
	}
	bt := types.Unalias(b.t)
	if pt := derefType(bt); pt != nil && structOf(pt) != nil {
		p := x.asPtr(b.v, bt)
		sty := structOf(pt)
		for i := 0; i < sty.NumFields(); i++ {
			if sty.Field(i).Name() == e.Name {
				fp := *p
				fp.Path = append(append([]PathStep{}, p.Path...), PathStep{Field: i})
				fp.Typ = sty.Field(i).Type()
				fp.Nilc = tFalse
				r := ce.loadPtr(&fp)
				r.origin = x.env.te.namedKey(pt) + "." + e.Name
				return r
			}
		}
		if g := ce.ghostField(pt, e.Name, p); g != nil {
			return *g
		}
		ce.fail("no field %s in %s", e.Name, x.env.te.typeStr(pt))
	}
	if sty := structOf(bt); sty != nil {
		tm := x.toTerm(b.v, bt)
		for i := 0; i < sty.NumFields(); i++ {
			if sty.Field(i).Name() == e.Name {
				ft := sty.Field(i).Type()
				return cvar{v: x.fromTerm(mkSel(tm, i), ft), t: ft}
			}
		}
	}
	ce.fail("field %s of non-struct %s", e.Name, e.X)
	return cvar{}
}

// ghostField: declared with //@ ghost Struct.field type
func (ce *cenv) ghostField(st types.Type, name string, p *PtrVal) *cvar {
	x := ce.x
	key := x.env.te.namedKey(st)
	for _, g := range x.env.con.Ghosts {
		if g.Struct == key && g.Field == name {
			so, gt := x.ghostSort(g.Type)
			h := ce.st.H("ghost:"+key+"."+name, arraySort(sortInt, so))
			return &cvar{v: mkSelect(h, p.Ref), t: gt}
		}
	}
	return nil
}

func (x *Exec) ghostSort(ts string) (*Sort, types.Type) {
	switch ts {
	case "int":
		return sortInt, mathInt
	case "bool":
		return sortBool, types.Typ[types.Bool]
	}
	tv, err := types.Eval(x.env.fset, x.env.pkg.Types, token.NoPos, "(*"+ts+")(nil)")
	if err == nil {
		t := derefType(tv.Type)
		return x.env.te.sortOf(t), t
	}
	tv, err = types.Eval(x.env.fset, x.env.pkg.Types, token.NoPos, "("+ts+")(nil)")
	if err == nil {
		return x.env.te.sortOf(tv.Type), tv.Type
	}
	x.unsup("ghost type %s", ts)
	return nil, nil
}

func (ce *cenv) evalIndex(e *CExpr) cvar {
	x := ce.x
	b := ce.eval(e.X)
	bt := types.Unalias(b.t)
	switch u := bt.Underlying().(type) {
	case *types.Slice:
		s := x.toTerm(b.v, bt)
		i := ce.evalInt(e.Y)
		tm := x.sliceAt(ce.st, s, u.Elem(), i)
		ce.typed(u.Elem(), tm)
		return cvar{v: x.fromTerm(tm, u.Elem()), t: u.Elem()}
	case *types.Array:
		a := x.toTerm(b.v, bt)
		i := ce.evalInt(e.Y)
		tm := mkSelect(a, i)
		ce.typed(u.Elem(), tm)
		return cvar{v: x.fromTerm(tm, u.Elem()), t: u.Elem()}
	case *types.Map:
		m := x.toTerm(b.v, bt)
		k := ce.eval(e.Y)
		_, _, vn, vs := x.env.te.mapHeaps(u, ce.region(b, e.X))
		tm := mkSelect(mkSelect(ce.st.H(vn, vs), m), x.toTerm(k.v, u.Key()))
		ce.typed(u.Elem(), tm)
		return cvar{v: x.fromTerm(tm, u.Elem()), t: u.Elem()}
	}
	// ghost arrays: Array Int X terms
	if tm, ok := b.v.(*Term); ok && tm.Sort.Kind == SArray {
		i := ce.eval(e.Y)
		var et types.Type = mathInt
		if m, ok := bt.(*types.Map); ok {
			et = m.Elem()
		}
		return cvar{v: mkSelect(tm, x.toTerm(i.v, i.t)), t: et}
	}
	ce.fail("index of %s (type %v)", e.X, b.t)
	return cvar{}
}

// addrOf: pointer to the location denoted by e (element or field expressions).
func (ce *cenv) addrOf(e *CExpr) *PtrVal {
	x := ce.x
	switch e.Kind {
	case "index":
		b := ce.eval(e.X)
		bt := types.Unalias(b.t)
		if u, ok := bt.Underlying().(*types.Slice); ok {
			s := x.toTerm(b.v, bt)
			return x.elemPtr(s, u.Elem(), ce.evalInt(e.Y))
		}
		if base := ce.addrOf(e.X); base != nil {
			if at, ok := base.Typ.Underlying().(*types.Array); ok {
				out := *base
				out.Path = append(append([]PathStep{}, base.Path...), PathStep{IsIdx: true, Idx: ce.evalInt(e.Y)})
				out.Typ = at.Elem()
				return &out
			}
		}
	case "field":
		b := ce.eval(e.X)
		bt := types.Unalias(b.t)
		if pt := derefType(bt); pt != nil && structOf(pt) != nil {
			p := x.asPtr(b.v, bt)
			sty := structOf(pt)
			for i := 0; i < sty.NumFields(); i++ {
				if sty.Field(i).Name() == e.Name {
					fp := *p
					fp.Path = append(append([]PathStep{}, p.Path...), PathStep{Field: i})
					fp.Typ = sty.Field(i).Type()
					fp.Nilc = tFalse
					return &fp
				}
			}
		}
		if base := ce.addrOf(e.X); base != nil {
			if sty := structOf(base.Typ); sty != nil {
				for i := 0; i < sty.NumFields(); i++ {
					if sty.Field(i).Name() == e.Name {
						fp := *base
						fp.Path = append(append([]PathStep{}, base.Path...), PathStep{Field: i})
						fp.Typ = sty.Field(i).Type()
						return &fp
					}
				}
			}
		}
	case "id":
		if ce.useCells && ce.fr != nil {
			// address of a local
			var best *Cell
			for f := ce.fr; f != nil && best == nil; f = f.parent {
				for _, c := range f.cells {
					if c.Name == e.Name {
						if _, live := ce.st.cells[c]; live && (best == nil || c.Pos > best.Pos || (c.Pos == best.Pos && c.ID > best.ID)) {
							best = c
						}
					}
				}
			}
			if best != nil {
				return &PtrVal{Nilc: tFalse, Base: PLocal, Cell: best, BTyp: best.Typ, Typ: best.Typ}
			}
		}
		if g, ok := x.env.spkg.Members[e.Name].(*ssa.Global); ok {
			t := derefType(g.Type())
			return &PtrVal{Nilc: tFalse, Base: PGlobal, Glob: g, BTyp: t, Typ: t}
		}
	}
	return nil
}

func (ce *cenv) evalMCall(e *CExpr) cvar {
	x := ce.x
	recv := ce.eval(e.X)
	rt := types.Unalias(recv.t)
	if p := derefType(rt); p != nil {
		rt = p
	}
	key := x.env.te.namedKey(rt) + "." + e.Name
	sd := x.env.con.Specs[key]
	if sd == nil {
		ce.fail("no spec %s", key)
	}
	if len(e.Args) != len(sd.Params) {
		ce.fail("spec %s: %d arguments, want %d", key, len(e.Args), len(sd.Params))
	}
	vars := map[string]cvar{sd.RecvName: recv}
	for i, a := range e.Args {
		vars[sd.Params[i].Name] = ce.eval(a)
	}
	sub := ce.sub(vars)
	sub.useCells = false
	sub.fr = nil
	return sub.eval(sd.Body)
}

func (ce *cenv) evalCall(e *CExpr) cvar {
	x := ce.x
	boolT := types.Typ[types.Bool]
	argn := func(n int) {
		if len(e.Args) != n {
			ce.fail("%s expects %d arguments", e.Name, n)
		}
	}
	switch e.Name {
	case "old":
		argn(1)
		n := *ce
		n.st = ce.old
		n.useCells = false
		return n.eval(e.Args[0])
	case "len", "cap":
		argn(1)
		v := ce.eval(e.Args[0])
		vt := types.Unalias(v.t)
		switch u := vt.Underlying().(type) {
		case *types.Slice:
			s := x.toTerm(v.v, vt)
			if e.Name == "len" {
				return cvar{v: sliceLen(s), t: mathInt}
			}
			return cvar{v: sliceCap(s), t: mathInt}
		case *types.Array:
			return cvar{v: mkInt(u.Len()), t: mathInt}
		case *types.Basic:
			return cvar{v: strLen(x.toTerm(v.v, vt)), t: mathInt}
		case *types.Map:
			m := x.toTerm(v.v, vt)
			ln, ls := x.env.te.mapLenHeap(u, ce.region(v, e.Args[0]))
			return cvar{v: mkSelect(ce.st.H(ln, ls), m), t: mathInt}
		case *types.Chan:
			ch := x.toTerm(v.v, vt)
			if e.Name == "cap" {
				return cvar{v: mkApp("chan.cap", sortInt, ch), t: mathInt}
			}
		}
		ce.fail("%s of %s", e.Name, e.Args[0])
	case "min", "max":
		cur := ce.evalInt(e.Args[0])
		for _, a := range e.Args[1:] {
			o := ce.evalInt(a)
			if e.Name == "min" {
				cur = mkMin(cur, o)
			} else {
				cur = mkMax(cur, o)
			}
		}
		return cvar{v: cur, t: mathInt}
	case "int", "int64", "uint64", "uint":
		argn(1)
		v := ce.evalInt(e.Args[0])
		if e.Name == "uint64" || e.Name == "uint" {
			return cvar{v: wrapInt(v, 64, false), t: types.Typ[types.Uint64]}
		}
		return cvar{v: v, t: mathInt}
	case "uint32":
		argn(1)
		return cvar{v: wrapInt(ce.evalInt(e.Args[0]), 32, false), t: types.Typ[types.Uint32]}
	case "uint16":
		argn(1)
		return cvar{v: wrapInt(ce.evalInt(e.Args[0]), 16, false), t: types.Typ[types.Uint16]}
	case "uint8", "byte":
		argn(1)
		return cvar{v: wrapInt(ce.evalInt(e.Args[0]), 8, false), t: types.Typ[types.Uint8]}
	case "int32":
		argn(1)
		return cvar{v: wrapInt(ce.evalInt(e.Args[0]), 32, true), t: types.Typ[types.Int32]}
	case "int16":
		argn(1)
		return cvar{v: wrapInt(ce.evalInt(e.Args[0]), 16, true), t: types.Typ[types.Int16]}
	case "int8":
		argn(1)
		return cvar{v: wrapInt(ce.evalInt(e.Args[0]), 8, true), t: types.Typ[types.Int8]}
	case "addu32", "subu32":
		// wrap-around sum/difference of two values already in [0, 2^32)
		argn(2)
		a, b := ce.evalInt(e.Args[0]), ce.evalInt(e.Args[1])
		if e.Name == "addu32" {
			return cvar{v: wrapSum(mkAdd(a, b), 32, false), t: types.Typ[types.Uint32]}
		}
		return cvar{v: wrapSum(mkSub(a, b), 32, false), t: types.Typ[types.Uint32]}
	case "s32":
		// reinterpret a value in [0, 2^32) as int32
		argn(1)
		a := ce.evalInt(e.Args[0])
		return cvar{v: mkIte(mkLe(mkBig(pow2(31)), a), mkSub(a, mkBig(pow2(32))), a), t: types.Typ[types.Int32]}
	case "iszero":
		argn(1)
		v := ce.eval(e.Args[0])
		if v.t == nil {
			ce.fail("iszero of untyped value")
		}
		return cvar{v: mkEq(x.toTerm(v.v, v.t), x.env.te.zero(v.t)), t: boolT}
	case "fresh":
		argn(1)
		v := ce.eval(e.Args[0])
		r := ce.refOf(v)
		return cvar{v: mkLt(ce.old.H("$alloc", sortInt), r), t: boolT}
	case "allocated":
		argn(1)
		v := ce.eval(e.Args[0])
		r := ce.refOf(v)
		return cvar{v: mkAnd(mkLt(mkInt(0), r), mkLe(r, ce.st.H("$alloc", sortInt))), t: boolT}
	case "ref":
		argn(1)
		return cvar{v: ce.refOf(ce.eval(e.Args[0])), t: mathInt}
	case "off":
		argn(1)
		v := ce.eval(e.Args[0])
		return cvar{v: sliceOff(x.toTerm(v.v, v.t)), t: mathInt}
	case "objlen":
		argn(1)
		return cvar{v: objlen(ce.refOf(ce.eval(e.Args[0]))), t: mathInt}
	case "sameSlice":
		argn(2)
		a, b := ce.eval(e.Args[0]), ce.eval(e.Args[1])
		sa, sb := x.toTerm(a.v, a.t), x.toTerm(b.v, b.t)
		return cvar{v: mkAnd(mkEq(sliceRef(sa), sliceRef(sb)), mkEq(sliceOff(sa), sliceOff(sb))), t: boolT}
	case "disjoint":
		argn(2)
		a, b := ce.eval(e.Args[0]), ce.eval(e.Args[1])
		sa, sb := x.toTerm(a.v, a.t), x.toTerm(b.v, b.t)
		return cvar{v: mkOr(mkNot(mkEq(sliceRef(sa), sliceRef(sb))),
			mkLe(mkAdd(sliceOff(sa), sliceLen(sa)), sliceOff(sb)),
			mkLe(mkAdd(sliceOff(sb), sliceLen(sb)), sliceOff(sa))), t: boolT}
	case "in":
		argn(2)
		m := ce.eval(e.Args[0])
		mt, ok := types.Unalias(m.t).Underlying().(*types.Map)
		if !ok {
			ce.fail("in(): not a map")
		}
		k := ce.eval(e.Args[1])
		dn, ds, _, _ := x.env.te.mapHeaps(mt, ce.region(m, e.Args[0]))
		return cvar{v: mkSelect(mkSelect(ce.st.H(dn, ds), x.toTerm(m.v, m.t)), x.toTerm(k.v, mt.Key())), t: boolT}
	case "cb_ref", "cb_idx":
		argn(1)
		return cvar{v: mkSelect(ce.st.H("ghost:"+e.Name, arraySort(sortInt, sortInt)), ce.evalInt(e.Args[0])), t: mathInt}
	case "cb_ret":
		argn(1)
		return cvar{v: mkSelect(ce.st.H("ghost:cb_ret", arraySort(sortInt, sortBool)), ce.evalInt(e.Args[0])), t: boolT}
	case "held":
		argn(1)
		p := ce.addrOf(e.Args[0])
		if p == nil {
			ce.fail("held(): not a mutex location")
		}
		k, ref := x.lockKey(p)
		return cvar{v: mkSelect(ce.st.H(k, arraySort(sortInt, sortBool)), ref), t: boolT}
	case "typeis":
		// typeis(x, "TypeName"): dynamic type of interface x
		argn(2)
		v := ce.eval(e.Args[0])
		iv := x.toTerm(v.v, v.t)
		tn := e.Args[1].Name
		ptr := false
		if strings.HasPrefix(tn, "ptr_") {
			ptr = true
			tn = tn[4:]
		}
		if tn == "bytes" {
			return cvar{v: x.typeTest(iv, types.NewSlice(types.Typ[types.Uint8])), t: boolT}
		}
		obj := x.env.lookupType(tn)
		if obj == nil {
			obj = types.Universe.Lookup(tn)
		}
		if obj == nil {
			ce.fail("typeis: unknown type %s", tn)
		}
		var t types.Type = obj.Type()
		if ptr {
			t = types.NewPointer(t)
		}
		return cvar{v: x.typeTest(iv, t), t: boolT}
	case "ifaceval":
		// ifaceval(x): the payload word of interface x (0 for nil pointers / nil funcs)
		argn(1)
		v := ce.eval(e.Args[0])
		return cvar{v: mkSel(x.toTerm(v.v, v.t), 1), t: mathInt}
	case "unboxbytes":
		argn(1)
		v := ce.eval(e.Args[0])
		iv := x.toTerm(v.v, v.t)
		bt := types.NewSlice(types.Typ[types.Uint8])
		tm := x.unbox(iv, bt).(*Term)
		ce.typed(bt, tm)
		return cvar{v: tm, t: bt}
	case "unboxptr":
		// unboxptr(x, TypeName): pointer stored in interface x
		argn(2)
		v := ce.eval(e.Args[0])
		iv := x.toTerm(v.v, v.t)
		obj := x.env.lookupType(e.Args[1].Name)
		if obj == nil {
			ce.fail("unboxptr: unknown type %s", e.Args[1].Name)
		}
		t := types.NewPointer(obj.Type())
		return cvar{v: x.unbox(iv, t), t: t}
	case "calls":
		// calls(FuncKey) or calls(FuncKey, obj): ghost call counter
		if len(e.Args) < 1 {
			ce.fail("calls(FuncKey[, obj])")
		}
		key := e.Args[0].String()
		ref := mkInt(0)
		if len(e.Args) > 1 {
			ref = ce.refOf(ce.eval(e.Args[1]))
		}
		return cvar{v: mkSelect(ce.st.H("ghost:calls:"+key, arraySort(sortInt, sortInt)), ref), t: mathInt}
	case "callsat":
		// callsat(FuncKey, intref): counter at an integer reference (for quantification)
		argn(2)
		return cvar{v: mkSelect(ce.st.H("ghost:calls:"+e.Args[0].String(), arraySort(sortInt, sortInt)), ce.evalInt(e.Args[1])), t: mathInt}
	case "sends", "lastsent":
		// sends(Struct.chanField, ch): number of sends on channel ch through that field
		argn(2)
		v := ce.eval(e.Args[1])
		return cvar{v: mkSelect(ce.st.H("ghost:"+e.Name+":"+e.Args[0].String(), arraySort(sortInt, sortInt)), x.toTerm(v.v, v.t)), t: mathInt}
	case "cfbenc", "cfbdec", "bytesmatch":
		return ce.evalCrypto(e)
	case "emptystr":
		// the empty string (the same term the Go constant "" translates to)
		argn(0)
		return cvar{v: mkVar(fmt.Sprintf("strlit!%x", hashStr("")), sortStr), t: types.Typ[types.String]}
	case "room":
		// room(ch): a send on the channel cannot block (ghost upper bound of the length, kept for a
		// channel with a declared sole producer, is below the capacity)
		argn(1)
		v := ce.eval(e.Args[0])
		cht := x.toTerm(v.v, v.t)
		return cvar{v: mkLt(mkSelect(ce.st.H("ghost:chanmax", arraySort(sortInt, sortInt)), cht), mkApp("chan.cap", sortInt, cht)), t: types.Typ[types.Bool]}
	case "pending":
		// pending(ch): the channel is known to hold at least one element (ghost lower bound kept
		// for a channel with a declared sole consumer)
		argn(1)
		v := ce.eval(e.Args[0])
		return cvar{v: mkLt(mkInt(0), mkSelect(ce.st.H("ghost:chanmin", arraySort(sortInt, sortInt)), x.toTerm(v.v, v.t))), t: types.Typ[types.Bool]}
	case "closed":
		// closed(ch): the channel is known to be closed (ghost flag set by close(ch) and by a
		// successful receive on a close-only channel)
		argn(1)
		v := ce.eval(e.Args[0])
		return cvar{v: mkSelect(ce.st.H("ghost:closed", arraySort(sortInt, sortBool)), x.toTerm(v.v, v.t)), t: types.Typ[types.Bool]}
	case "oncedone":
		// oncedone(x.onceField): the sync.Once is known to have fired
		argn(1)
		pv := ce.addrOf(e.Args[0])
		if pv == nil || pv.Base != PObj || len(pv.Path) != 1 {
			ce.fail("oncedone(obj.onceField)")
		}
		sty := structOf(pv.BTyp)
		hn := "ghost:once:" + x.env.te.namedKey(pv.BTyp) + "." + sty.Field(pv.Path[0].Field).Name()
		return cvar{v: mkSelect(ce.st.H(hn, arraySort(sortInt, sortBool)), pv.Ref), t: types.Typ[types.Bool]}
	case "each":
		// each(i, lo, hi, body): finite conjunction over lo <= i < hi (bounds must be concrete:
		// instantiated units)
		argn(4)
		if e.Args[0].Op != "id" && e.Args[0].Name == "" {
			ce.fail("each: first argument must be a variable name")
		}
		lo, hi := ce.evalInt(e.Args[1]), ce.evalInt(e.Args[2])
		if !isInt(lo) || !isInt(hi) {
			// symbolic bounds: an ordinary quantifier  forall i int :: lo <= i && i < hi ==> body
			i := &CExpr{Kind: "id", Name: e.Args[0].Name}
			rng := &CExpr{Kind: "bin", Op: "&&", X: &CExpr{Kind: "bin", Op: "<=", X: e.Args[1], Y: i}, Y: &CExpr{Kind: "bin", Op: "<", X: i, Y: e.Args[2]}}
			q := &CExpr{Kind: "quant", Op: "forall", Vars: []CVarDecl{{e.Args[0].Name, "int"}}, X: &CExpr{Kind: "bin", Op: "==>", X: rng, Y: e.Args[3]}}
			return ce.evalQuant(q)
		}
		var cs []*Term
		for k := lo.Val.Int64(); k < hi.Val.Int64(); k++ {
			vars := map[string]cvar{}
			for n, v := range ce.vars {
				vars[n] = v
			}
			vars[e.Args[0].Name] = cvar{v: mkInt(k), t: mathInt}
			n := *ce
			n.vars = vars
			cs = append(cs, n.evalBool(e.Args[3]))
		}
		return cvar{v: mkAnd(cs...), t: types.Typ[types.Bool]}
	case "xor8":
		argn(2)
		return cvar{v: bxor8(ce.evalInt(e.Args[0]), ce.evalInt(e.Args[1])), t: mathInt}
	case "blocksize":
		argn(1)
		b := ce.eval(e.Args[0])
		return cvar{v: mkApp("blk.size", sortInt, x.toTerm(b.v, b.t)), t: mathInt}
	case "salsaks":
		// salsaks(key, k, nonce): byte k of the Salsa20 keystream for (key, 8-byte nonce)
		argn(3)
		kv := ce.eval(e.Args[0])
		key := x.toTerm(kv.v, kv.t)
		nv := ce.eval(e.Args[2])
		nonce := x.toTerm(nv.v, nv.t)
		args := []*Term{key, ce.evalInt(e.Args[1])}
		for k := 0; k < 8; k++ {
			args = append(args, x.byteAt(ce.st, nonce, k))
		}
		return cvar{v: mkApp("salsa.KS8", sortInt, args...), t: mathInt}
	case "bytesobj":
		// bytesobj(o): contents of the byte array object with reference o
		argn(1)
		bt := types.Universe.Lookup("byte").Type()
		hn, so := x.env.te.elemHeap(bt)
		return cvar{v: mkSelect(ce.st.H(hn, so), ce.evalInt(e.Args[0])), t: nil}
	case "contents":
		// contents(s): the whole backing array of slice s (for uninterpreted functions of bytes)
		argn(1)
		v := ce.eval(e.Args[0])
		st, ok := types.Unalias(v.t).Underlying().(*types.Slice)
		if !ok {
			ce.fail("contents(): not a slice")
		}
		hn, so := x.env.te.elemHeap(st.Elem())
		return cvar{v: mkSelect(ce.st.H(hn, so), sliceRef(x.toTerm(v.v, v.t))), t: nil}
	case "sameheap":
		// sameheap(prefix...): every heap whose name starts with one of the prefixes is unchanged since old
		var cs []*Term
		for _, a := range e.Args {
			pre := a.String()
			for _, n := range heapNames {
				match := false
				switch pre {
				case "allelems":
					match = strings.HasPrefix(n, "H:") && n != "H:byte"
				case "allmaps":
					match = strings.HasPrefix(n, "MD:") || strings.HasPrefix(n, "MV:") || strings.HasPrefix(n, "ML:")
				default:
					match = strings.HasPrefix(n, "F:"+pre+".") || strings.HasPrefix(n, "F:"+pre+"[")
				}
				if match {
					cs = append(cs, mkEq(ce.st.H(n, heapSorts[n]), ce.old.H(n, heapSorts[n])))
				}
			}
		}
		return cvar{v: mkAnd(cs...), t: boolT}
	case "unboxval":
		// unboxval(x, TypeName): value of a package type stored in interface x
		argn(2)
		v := ce.eval(e.Args[0])
		iv := x.toTerm(v.v, v.t)
		obj := x.env.lookupType(e.Args[1].Name)
		if obj == nil {
			ce.fail("unboxval: unknown type %s", e.Args[1].Name)
		}
		uv := x.unbox(iv, obj.Type())
		if tm, ok := uv.(*Term); ok {
			ce.typed(obj.Type(), tm)
		}
		return cvar{v: uv, t: obj.Type()}
	case "uf":
		// uf(name, args...) : uninterpreted integer function
		if len(e.Args) < 1 {
			ce.fail("uf(name, ...)")
		}
		var as []*Term
		for _, a := range e.Args[1:] {
			v := ce.eval(a)
			if tm, ok := v.v.(*Term); ok {
				as = append(as, tm)
			} else {
				as = append(as, x.toTerm(v.v, v.t))
			}
		}
		as = rangeLocal(e.Args[0].Name, as)
		return cvar{v: mkApp("uf:"+e.Args[0].Name, sortInt, as...), t: mathInt}
	case "ufs":
		// ufs(name, args...): uninterpreted string-valued function
		var as []*Term
		for _, a := range e.Args[1:] {
			v := ce.eval(a)
			if tm, ok := v.v.(*Term); ok {
				as = append(as, tm)
			} else {
				as = append(as, x.toTerm(v.v, v.t))
			}
		}
		return cvar{v: mkApp("ufs:"+e.Args[0].Name, sortStr, as...), t: types.Typ[types.String]}
	case "ufb":
		var as []*Term
		for _, a := range e.Args[1:] {
			v := ce.eval(a)
			if tm, ok := v.v.(*Term); ok {
				as = append(as, tm)
			} else {
				as = append(as, x.toTerm(v.v, v.t))
			}
		}
		return cvar{v: mkApp("ufb:"+e.Args[0].Name, sortBool, as...), t: boolT}
	}
	if sd := x.env.con.Specs[e.Name]; sd != nil {
		if len(e.Args) != len(sd.Params) {
			ce.fail("spec %s: %d arguments, want %d", e.Name, len(e.Args), len(sd.Params))
		}
		vars := map[string]cvar{}
		for i, a := range e.Args {
			vars[sd.Params[i].Name] = ce.eval(a)
		}
		sub := ce.sub(vars)
		sub.useCells = false
		sub.fr = nil
		return sub.eval(sd.Body)
	}
	ce.fail("unknown function %s", e.Name)
	return cvar{}
}

// modFacts: linear instance lemmas about (mod a b) for a non-constant divisor.
func modLemma(a, b *Term) *Term {
	if isInt(b) {
		return tTrue
	}
	m := mkMod(a, b)
	pos := mkLt(mkInt(0), b)
	return mkImp(pos, mkAnd(mkLe(mkInt(0), m), mkLt(m, b),
		mkImp(mkAnd(mkLe(mkInt(0), a), mkLt(a, b)), mkEq(m, a)),
		mkImp(mkAnd(mkLe(b, a), mkLt(a, mkAdd(b, b))), mkEq(m, mkSub(a, b))),
		mkImp(mkAnd(mkLe(mkNeg(b), a), mkLt(a, mkInt(0))), mkEq(m, mkAdd(a, b)))))
}

func (ce *cenv) modFacts(a, b *Term) {
	f := modLemma(a, b)
	if f == tTrue {
		return
	}
	if ce.x.factSink != nil {
		*ce.x.factSink = append(*ce.x.factSink, f)
	} else {
		ce.x.assume(ce.st, f)
	}
}

func (ce *cenv) region(v cvar, e *CExpr) string {
	if v.origin == "" {
		ce.fail("map expression %s is not a direct field access (map region discipline)", e)
	}
	return v.origin
}

func (ce *cenv) refOf(v cvar) *Term {
	switch p := v.v.(type) {
	case *PtrVal:
		if p.Base == PObj || p.Base == PElem {
			return mkIte(p.Nilc, mkInt(0), p.Ref)
		}
		if p.Base == PNil {
			return mkInt(0)
		}
	case *Term:
		if p.Sort == sortSlice {
			return sliceRef(p)
		}
		if p.Sort == sortInt {
			return p
		}
	}
	ce.fail("ref(): unsupported value")
	return nil
}

type cpart struct {
	label string
	term  *Term
}

// evalParts evaluates a boolean contract expression as a list of labelled conjuncts:
// top-level && chains and calls of predicates are opened up so that every obligation is
// small and carries a name taken from the contract text.
func (ce *cenv) evalParts(e *CExpr, prefix string, depth int) []cpart {
	x := ce.x
	if e.Kind == "bin" && e.Op == "&&" {
		return append(ce.evalParts(e.X, prefix, depth), ce.evalParts(e.Y, prefix, depth)...)
	}
	if depth < 3 {
		switch e.Kind {
		case "mcall":
			recv := ce.eval(e.X)
			rt := types.Unalias(recv.t)
			if p := derefType(rt); p != nil {
				rt = p
			}
			key := x.env.te.namedKey(rt) + "." + e.Name
			if sd := x.env.con.Specs[key]; sd != nil && sd.IsPred && len(e.Args) == len(sd.Params) {
				vars := map[string]cvar{sd.RecvName: recv}
				for i, a := range e.Args {
					vars[sd.Params[i].Name] = ce.eval(a)
				}
				sub := ce.sub(vars)
				sub.useCells = false
				sub.fr = nil
				return sub.evalParts(sd.Body, prefix+e.String()+" > ", depth+1)
			}
		case "call":
			if sd := x.env.con.Specs[e.Name]; sd != nil && sd.IsPred && len(e.Args) == len(sd.Params) {
				vars := map[string]cvar{}
				for i, a := range e.Args {
					vars[sd.Params[i].Name] = ce.eval(a)
				}
				sub := ce.sub(vars)
				sub.useCells = false
				sub.fr = nil
				return sub.evalParts(sd.Body, prefix+e.String()+" > ", depth+1)
			}
		}
	}
	return []cpart{{prefix + e.String(), ce.evalBool(e)}}
}

// assertClause asserts every conjunct of a clause as its own obligation.
func (x *Exec) assertClause(st *State, kind, prefix string, ce *cenv, cl *Clause, pos token.Pos) {
	if x.dry > 0 {
		return
	}
	label := prefix
	if cl.Name != "" {
		label += "[" + cl.Name + "] "
	}
	for _, p := range ce.evalParts(cl.Expr, label, 0) {
		x.assert(st, kind, p.label, p.term, pos, cl)
	}
}

func (x *Exec) clauseEnv(fr *Frame, st *State, extra map[string]cvar) *cenv {
	vars := x.frameVars(fr)
	ce := &cenv{x: x, st: st, old: fr.old, vars: vars, fr: fr, useCells: true, bound: map[string]bool{}}
	for k, v := range extra {
		vars[k] = v
		ce.bound[k] = true
	}
	return ce
}

// evalCrypto: spec functions over byte arrays with a concrete length (instantiated units).
//
//	cfbenc(block, dst, src, bs) / cfbdec(...): dst[0..len(src)) in the current state equals textbook
//	CFB of src's bytes in the old state (IV = the package's initialVector in the old state).
func (ce *cenv) evalCrypto(e *CExpr) cvar {
	x := ce.x
	if len(e.Args) != 4 {
		ce.fail("%s(block, dst, src, bs)", e.Name)
	}
	blk := ce.eval(e.Args[0])
	self := x.toTerm(blk.v, blk.t)
	dv, sv := ce.eval(e.Args[1]), ce.eval(e.Args[2])
	d, s := x.toTerm(dv.v, dv.t), x.toTerm(sv.v, sv.t)
	bsT := ce.evalInt(e.Args[3])
	n := sliceLen(s)
	if !isInt(n) || !isInt(bsT) {
		// symbolic length: the relation is an uninterpreted predicate of the block object, the
		// block size, the two slice headers, the byte heap before and after and the IV: enough
		// to carry a callee's postcondition through a wrapper that does nothing else.
		bt := types.Universe.Lookup("byte").Type()
		hn, so := x.env.te.elemHeap(bt)
		ivs := ce.old.H("G:"+x.env.spkg.Pkg.Name()+".initialVector", sortSlice)
		return cvar{v: mkApp("rel."+e.Name, sortBool, self, bsT, d, s, ce.old.H(hn, so), ce.st.H(hn, so), ivs), t: types.Typ[types.Bool]}
	}
	cnt, bs := int(n.Val.Int64()), int(bsT.Val.Int64())
	in := make([]*Term, cnt)
	for k := range in {
		in[k] = x.byteAt(ce.old, s, k)
	}
	g := x.env.spkg.Members["initialVector"]
	if g == nil {
		ce.fail("no initialVector")
	}
	ivs := ce.old.H("G:"+x.env.spkg.Pkg.Name()+".initialVector", sortSlice)
	iv := make([]*Term, bs)
	for k := range iv {
		iv[k] = x.byteAt(ce.old, ivs, k)
	}
	spec := cfbSpec(self, in, iv, bs, e.Name == "cfbenc")
	var cs []*Term
	for k := 0; k < cnt; k++ {
		cs = append(cs, mkEq(x.byteAt(ce.st, d, k), spec[k]))
	}
	return cvar{v: mkAnd(cs...), t: types.Typ[types.Bool]}
}

// rangeLocal: functions of (array, offset, length) that depend only on array[offset, offset+length)
// (checksums, authenticity of a ciphertext): stores outside that range are dropped from the
// array argument, so that writing the header in front of a payload does not change the
// function's value on the payload.
func rangeLocal(name string, as []*Term) []*Term {
	if (name != "crc32" && name != "aeadAuthentic") || len(as) != 3 || as[0].Sort.Kind != SArray {
		return as
	}
	arr, off, ln := as[0], as[1], as[2]
	end := mkAdd(off, ln)
	for arr.Op == OpStore {
		i := arr.Args[1]
		if provablyLt(i, off) || provablyLe(end, i) {
			arr = arr.Args[0]
			continue
		}
		break
	}
	return []*Term{arr, off, ln}
}

// provablyLt: a < b by comparing constant offsets from a common base.
func provablyLt(a, b *Term) bool {
	ba, ca := splitConst(a)
	bb, cb := splitConst(b)
	return ba == bb && ca.Cmp(cb) < 0
}

func provablyLe(a, b *Term) bool {
	ba, ca := splitConst(a)
	bb, cb := splitConst(b)
	return ba == bb && ca.Cmp(cb) <= 0
}

// lookupType: a type of the package, or of an imported package written pkg_Type (net_UDPAddr).
func (e *Env) lookupType(name string) types.Object {
	if o := e.pkg.Types.Scope().Lookup(name); o != nil {
		return o
	}
	if i := strings.Index(name, "_"); i > 0 {
		for _, imp := range e.pkg.Types.Imports() {
			if imp.Name() == name[:i] {
				if o := imp.Scope().Lookup(name[i+1:]); o != nil {
					return o
				}
			}
		}
	}
	return nil
}
